"""Run an atheris (libFuzzer) target as a second engine in the thorough tier.

The target (fuzz/*.py) carries the semantic oracle itself: it decodes the bytes into a structured case, calls the
check's own examine(case) and, for a violation whose signature is not an open known finding, prints one line
`FUZZ-VIOLATION <json>` and raises.  A time budget only ever truncates the campaign.
"""
import json
import os
import re
import shutil
import subprocess
import sys
import tempfile

from .harness import VERIF, REPO, load_known, sig_hash


def available():
    deps = os.path.join(VERIF, '.deps')
    env = dict(os.environ, PYTHONPATH=os.pathsep.join([REPO, VERIF, deps]))
    r = subprocess.run([sys.executable, '-c', 'import atheris'], env=env, stdout=subprocess.DEVNULL, stderr=subprocess.DEVNULL)
    return r.returncode == 0


def run_atheris(ctx, script, seconds=60, seeds=(), forks=1):
    if not available():
        ctx.note('atheris is not installed (./setup.sh installs it into .deps): fuzz engine skipped')
        ctx.label('atheris-skipped')
        return
    open_known, _ = load_known(ctx.prop)
    corpus = tempfile.mkdtemp(prefix='athlib-fuzz-', dir='/dev/shm')
    try:
        for i, s in enumerate(seeds):
            with open(os.path.join(corpus, 'seed%d' % i), 'wb') as f:
                f.write(s)
        deps = os.path.join(VERIF, '.deps')
        env = dict(os.environ, PYTHONPATH=os.pathsep.join([REPO, VERIF, deps]),
                   VERIF_KNOWN_SIGS=json.dumps([sig_hash(e['signature']) for e in open_known]))
        total_runs = 0
        found = []
        # libFuzzer stops at the first failure: restart until the budget is used, excluding what was found
        import time
        t0 = time.time()
        exclude = []
        while time.time() - t0 < seconds and len(found) < 8:
            env['VERIF_EXCLUDE_SIGS'] = json.dumps(exclude)
            left = max(5, int(seconds - (time.time() - t0)))
            p = subprocess.run([sys.executable, os.path.join(VERIF, script), '-max_total_time=%d' % left,
                                '-seed=%d' % ((ctx.seed % 2 ** 31) or 1), '-max_len=64', '-timeout=30',
                                '-artifact_prefix=%s/' % corpus, corpus],
                               env=env, stdout=subprocess.PIPE, stderr=subprocess.STDOUT, text=True, cwd=VERIF)
            m = re.findall(r'#(\d+)\s+(?:DONE|NEW|REDUCE|pulse|INITED)', p.stdout)
            if m:
                total_runs += max(int(x) for x in m)
            hit = None
            for line in p.stdout.splitlines():
                if line.startswith('FUZZ-VIOLATION '):
                    hit = json.loads(line[len('FUZZ-VIOLATION '):])
            if hit is None:
                if p.returncode not in (0,):
                    ctx.note('atheris target ended with rc=%d without a violation line: %s' % (p.returncode, p.stdout[-300:]))
                break
            found.append(hit)
            exclude.append(sig_hash(hit['sig']))
        ctx.count(total_runs)
        ctx.label('atheris-executions', total_runs)
        ctx.extra['atheris'] = {'script': script, 'executions': total_runs, 'budget_s': seconds, 'violations': len(found)}
        for v in found:
            ctx.violation(v)
    finally:
        shutil.rmtree(corpus, ignore_errors=True)
