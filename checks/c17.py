"""C17 — implement weights and weight-specific codes stay inside the vocabulary."""
import datetime
import json
import os
import random
from decimal import Decimal

import hypothesis
from hypothesis import given, settings, strategies as st, HealthCheck, Phase

import athlib
from athlib import codes
from vlib import codegen, junior
from vlib.harness import V, derive_seed, REPO
from vlib.lib import call, mod

PROPERTY = 'C17'
AMBIENT_PASS = True        # the same search once more under unusual ambient settings (vlib.run.AMBIENT_SETTINGS)
RULE = ('finite core enumerated completely: events {SP, DT, HT, JT, WT} x gender {M, F, other} x every age-group label '
        'calc_uka_age_group produces (obtained by calling it over birth years 0..114 in all categories/options) + the labels the '
        'implement tables name + V115/V120; plus Hypothesis-generated arbitrary labels and non-throw codes from the event-code '
        'grammar; plus every key of every scoring / age-grading table; oracle = validity predicate (accepted throws code, already '
        'normalised, weight parsed back equals the table weight, generic code when none, never an exception), masters weights '
        'non-increasing over V35..V120, pass-through of other codes, table keys accepted by check_event_code; non-trivial = '
        'an age group >= V80, or one with no tabulated weight, or a non-integral weight, or a table key; distinct (event, '
        'gender, group) / keys')
RULE = RULE + '; the other generic throws of the vocabulary (SWT, BT, ST, GDT, CT, OT, seated variants ...) pass through or get a valid normalised code of the same event'
ASSUMPTIONS = ['weights are compared as decimals (kg; grams for JT) after parsing the number back out of the built code']

THROWS5 = ['SP', 'DT', 'HT', 'JT', 'WT']
# the other generic throws of the vocabulary: today they pass through; should the library come to build weight-specific codes
# for one of them, those are held to the same clauses (valid, normalised, the table's weight)
OTHER_THROWS = ['SWT', 'BT', 'ST', 'GDT', 'CT', 'OT', 'SSP', 'SDT', 'SJT', 'SBT', 'TART', 'CHT', 'OHT']
GROUP_OF = {'SP': 'spnum', 'DT': 'dtnum', 'HT': 'htnum', 'JT': 'jtnum', 'WT': 'wtnum'}


def produced_labels():
    """Every label calc_uka_age_group can produce (by calling it)."""
    labels = set()
    match = datetime.date(2019, 6, 15)
    for cat in ('TF', 'XC', 'ROAD'):
        for vets in (True, False):
            for under in (True, False):
                for age in range(0, 116):
                    for md in ((1, 1), (7, 1), (12, 30)):
                        b = datetime.date(2019 - age, md[0], md[1])
                        r = call(athlib.calc_uka_age_group, b, match, cat, vets, under)
                        if r[0] == 'ret' and isinstance(r[1], str):
                            labels.add(r[1])
    return sorted(labels)


TABLE_LABELS = ['U13', 'U14', 'U15', 'U16', 'U17', 'U18', 'U20', 'U23', 'SEN']


def parse_weight(code, event):
    m = codes.PAT_THROWS.match(code)
    if not m:
        return None
    g = m.group(GROUP_OF[event])
    if g is None:
        return None
    t = g.strip()
    while t and t[-1] in 'KkGg ':
        t = t[:-1]
    if not t:
        return ''
    try:
        return Decimal(t)
    except Exception:
        return None


def examine_specific(case):
    e, g, ag = case['event'], case['gender'], case['group']
    out = []
    w = call(athlib.get_implement_weight, e, g, ag)
    r = call(athlib.get_specific_event_code, e, g, ag)
    if e in OTHER_THROWS and r[0] == 'ret' and r[1] != e:
        # a weight-specific code built for another throw: valid, normalised, of the same event, carrying the table's weight
        code = r[1]
        if not isinstance(code, str) or not codes.PAT_THROWS.match(code) or not athlib.check_event_code(code):
            out.append(V('valid-throws-code', ['not-a-throws-code', 'other-throw'], case, code))
            return out
        n = call(athlib.normalize_event_code, code)
        if n != ('ret', code):
            out.append(V('already-normalised', ['not-normalised', 'other-throw'], case, [code, n]))
        if not code.upper().startswith(e) or w[0] != 'ret' or not w[1]:
            out.append(V('weight-matches-table', ['weight-mismatch', 'other-throw'], case, {'code': code, 'table': w[:2]}))
        return out
    if e not in THROWS5:
        if r != ('ret', e):
            out.append(V('pass-through', ['pass-through', r[1] if r[0] == 'exc' else 'changed'], case, r, e))
        return out
    if w[0] == 'exc' or not isinstance(w[1], str):
        out.append(V('weight-reported', ['weight-raises', w[1] if w[0] == 'exc' else 'type'], case, w))
        return out
    if r[0] == 'exc':
        out.append(V('never-raises', ['specific-raises', r[1], 'no-weight' if w[1] == '' else 'weight'], case, r,
                     e if w[1] == '' else None))
        return out
    code = r[1]
    if w[1] == '':
        if code != e:
            out.append(V('generic-when-no-weight', ['no-weight-not-generic'], case, code, e))
        return out
    if not isinstance(code, str) or not codes.PAT_THROWS.match(code):
        out.append(V('valid-throws-code', ['not-a-throws-code'], case, code))
        return out
    n = call(athlib.normalize_event_code, code)
    if n != ('ret', code):
        out.append(V('already-normalised', ['not-normalised'], case, [code, n]))
    pw = parse_weight(code, e)
    try:
        want = Decimal(w[1])
    except Exception:
        out.append(V('weight-reported', ['weight-not-a-number'], case, w[1]))
        return out
    if pw is None or pw == '' or pw != want:
        out.append(V('weight-matches-table', ['weight-mismatch'], case, {'code': code, 'parsed': str(pw)}, str(want)))
    return out


def examine_masters(case):
    e, g = case['event'], case['gender']
    out = []
    prev = None
    seen = False
    for band in range(35, 125, 5):
        ag = 'V%02d' % band
        w = call(athlib.get_implement_weight, e, g, ag)
        if w[0] == 'exc':
            out.append(V('weight-reported', ['weight-raises', w[1]], dict(case, group=ag), w))
            continue
        if w[1] == '':
            if seen:
                out.append(V('masters-monotone', ['masters-gap'], dict(case, group=ag), '', 'a weight (younger bands have one)'))
            continue
        seen = True
        d = Decimal(w[1])
        if prev is not None and d > prev[1]:
            out.append(V('masters-monotone', ['masters-heavier'], dict(case, group=ag), w[1], '<= %s (%s)' % (prev[1], prev[0])))
        prev = (ag, d)
    return out


def table_keys():
    keys = []
    for o in mod('athlon_score')._scoring_table:
        keys.append(('combined-events', o['event_code']))
    for row in mod('hungarian_score').FACTORS:
        keys.append(('hungarian', row[2]))
    for g, tab in junior.tyrving_tables().items():
        for k in tab:
            keys.append(('tyrving', k))
    for ct, tab in junior.qkids_tables().items():
        for k in tab:
            keys.append(('qkids', k))
    for k in mod('sportshall_score').RAWDATA[0][1:]:
        keys.append(('sportshall', k))
    for k in junior.bulgarian_tables():
        keys.append(('bulgarian', k[4:]))
    for fn in ('wma-data-2015.json', 'wma-data-2023.json', 'wma-athlons-data.json'):
        with open(os.path.join(REPO, 'athlib', 'wma', fn), encoding='utf-8') as f:
            d = json.load(f)
        for g in 'mf':
            for row in d[g]:
                keys.append((fn, row[0]))
    seen = []
    for k in keys:
        if k not in seen:
            seen.append(k)
    return seen


def examine_key(case):
    r = call(athlib.check_event_code, case['key'])
    if r[0] == 'exc' or not r[1]:
        return [V('table-keys-are-codes', ['table-key-rejected', case['table']], case, r)]
    return []


def examine_usage(case):
    import random as _r
    from vlib import variants as _v
    rng = _r.Random(17)
    sp = mod('sportshall_score')

    def spellings(k):
        out = [k, ' ' + k + ' ', k.lower(), '\t' + k, k + '\n']
        for _ in range(6):
            kind, v = _v.variant(k, rng.randrange)
            out.append(v)
            out.append(' ' + v + '  ')
        return out
    for g, tab in list(junior.tyrving_tables().items()):
        for k, params in list(tab.items()):
            ages = junior.tyrving_ages(params)
            for s_ in spellings(k):
                call(athlib.tyrving_score, g, ages[0], s_, 10.0)
                call(athlib.tyrving_score, g.lower(), ages[0], s_, '10.00')
    for ct, tab in list(junior.qkids_tables().items()):
        for k in list(tab):
            for s_ in spellings(k):
                call(athlib.qkids_score, ct, s_, 10.0)
    for k in list(mod('sportshall_score').RAWDATA[0][1:]):
        for s_ in spellings(k):
            call(sp.sportshall_score, s_, '10')
    for key in list(junior.bulgarian_tables()):
        for s_ in spellings(key[4:]):
            call(mod('bulgarian_score').score, 'U16', key[3], s_, 10.0)
    for o in mod('athlon_score')._scoring_table:
        for s_ in spellings(o['event_code']):
            call(athlib.athlon_score, o['gender'], s_, 10.0)
            call(athlib.athlon_performance_needed, o['gender'], s_, 500)
    for row in mod('hungarian_score').FACTORS[:40]:
        for s_ in spellings(row[2]):
            call(athlib.hungarian_score, row[0], row[1], s_, 10.0)
    for e in ('100', 'HJ', 'MAR', '5K', '7K'):
        for s_ in spellings(e):
            call(athlib.wma_age_factor, 'm', 50, s_)
            call(athlib.wma_world_best, 'f', s_)
    out = []
    for tab, k in table_keys():
        for v in examine_key({'kind': 'key', 'table': tab, 'key': k}):
            v['sig'] = v['sig'] + ['after-usage']
            v['case'] = {'kind': 'usage', 'table': tab, 'key': k}
            out.append(v)
    return out


def examine(case):
    k = case['kind']
    if k == 'usage':
        return examine_usage(case)
    if k == 'specific':
        return examine_specific(case)
    if k == 'masters':
        return examine_masters(case)
    return examine_key(case)


def run(ctx):
    labels = produced_labels()
    ctx.extra['labels_produced_by_calc_uka_age_group'] = labels
    groups = sorted(set(labels) | set(TABLE_LABELS) | {'V115', 'V120'})
    for e in OTHER_THROWS:
        for g in ('M', 'F', 'X'):
            for ag in groups:
                ctx.count()
                ctx.label('core-other-throws')
                ctx.violations(examine_specific({'kind': 'specific', 'event': e, 'gender': g, 'group': ag}))
    for e in THROWS5:
        for g in ('M', 'F', 'X', 'm', ''):
            for ag in groups:
                case = {'kind': 'specific', 'event': e, 'gender': g, 'group': ag}
                ctx.count()
                ctx.label('core')
                ctx.violations(examine_specific(case))
                w = call(athlib.get_implement_weight, e, g, ag)
                band = int(ag[1:]) if ag[:1] == 'V' and ag[1:].isdigit() else 0
                if band >= 80 or w == ('ret', '') or (w[0] == 'ret' and w[1] and Decimal(w[1]) != int(Decimal(w[1]))):
                    ctx.nontrivial((e, g, ag), dict(case, weight=w[1] if w[0] == 'ret' else None,
                                                    code=call(athlib.get_specific_event_code, e, g, ag)[1]))
        for g in ('M', 'F'):
            ctx.count()
            ctx.label('masters-sequence')
            ctx.violations(examine_masters({'kind': 'masters', 'event': e, 'gender': g}))
    keys = table_keys()
    for tab, k in keys:
        ctx.count()
        ctx.label('table-key')
        ctx.violations(examine_key({'kind': 'key', 'table': tab, 'key': k}))
        ctx.nontrivial(('key', tab, k))
    ctx.extra['table_keys'] = len(keys)
    # the key sets must stay inside the vocabulary while the library is USED: score through every table with caller
    # spellings (padded, lower case, kg / zero variants), then enumerate the keys again
    ctx.violations(examine_usage({'kind': 'usage'}))
    ctx.count(len(table_keys()))
    ctx.label('table-keys-after-usage')

    thorough = ctx.tier == 'thorough'
    g = codegen.Gen(codes.PAT_EVENT_CODE, 'PAT_EVENT_CODE')

    @hypothesis.seed(derive_seed(ctx.seed, 'C17-labels'))
    @settings(max_examples=20000 if thorough else 2500, database=None, deadline=None,
              suppress_health_check=list(HealthCheck), phases=[Phase.generate])
    @given(st.sampled_from(THROWS5), st.sampled_from(['M', 'F', 'X']),
           st.one_of(st.text(max_size=6), st.from_regex(r'^[UVW]\d{1,3}$', fullmatch=True),
                     st.sampled_from(['SEN', 'VET', 'MAS', 'U', 'V', 'v40', 'V 40', 'V4O', 'Z99', 'u13', 'V\u00b2', 'V\u2460',
                                      'V\u0663\u0665', 'V' + '9' * 30, 'V' + '1' * 5000, 'V-40', 'V+40', 'V40 '])))
    def t_labels(e, gender, ag):
        case = {'kind': 'specific', 'event': e, 'gender': gender, 'group': ag}
        ctx.count()
        ctx.label('arbitrary-label')
        ctx.violations(examine_specific(case))
        if call(athlib.get_implement_weight, e, gender, ag) == ('ret', ''):
            ctx.nontrivial((e, gender, ag))
    t_labels()

    @hypothesis.seed(derive_seed(ctx.seed, 'C17-codes'))
    @settings(max_examples=20000 if thorough else 2500, database=None, deadline=None,
              suppress_health_check=list(HealthCheck), phases=[Phase.generate])
    @given(st.data())
    def t_codes(data):
        code = g.generate(codegen.hyp_draw(data))
        ag = data.draw(st.sampled_from(groups))
        gender = data.draw(st.sampled_from(['M', 'F']))
        if code not in THROWS5 and data.draw(st.integers(0, 2)) == 0:
            # other codes pass through unchanged WHATEVER the label and gender are (nothing about them needs reading)
            ag = data.draw(st.one_of(st.text(max_size=6), st.sampled_from(
                ['V\u00b2', 'V\u2460', '', None, 'V' + '9' * 30, 'XYZ', 'V-5', 'V4O', ' V40', 'U', 'V', 40, 'V35.5'])))
            gender = data.draw(st.sampled_from(['M', 'F', 'X', 'm', None, '']))
            ctx.label('non-throw-code-with-arbitrary-label')
        ctx.count()
        ctx.label('non-throw-code' if code not in THROWS5 else 'generic-throw')
        ctx.violations(examine_specific({'kind': 'specific', 'event': code, 'gender': gender, 'group': ag}))
    t_codes()
    ctx.exhaustive = False
    ctx.note('the finite core (5 events x 5 genders x %d labels) and all %d table keys were enumerated completely'
             % (len(groups), len(keys)))
