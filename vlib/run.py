"""CLI:  python -m vlib.run Cnn --tier quick|thorough [--replay FILE]

exit 0  property held on everything explored (KNOWN-FINDING lines possible)
exit 1  a violation not listed in known_findings.json (VIOLATION lines)
exit 2  harness error (never a violation)
"""
import argparse
import importlib
import json
import os
import sys
import time
import traceback

from . import harness
from .harness import Ctx, HarnessError, VERIF, REPO, sig_hash


def _check_tree():
    import athlib
    path = os.path.realpath(os.path.dirname(athlib.__file__))
    want = os.path.realpath(os.path.join(REPO, 'athlib'))
    if path != want:
        raise HarnessError('athlib imported from %s, expected %s' % (path, want))


def _load(prop):
    return importlib.import_module('checks.' + prop.lower())


def _write_replay(prop, bucket, regress=False):
    d = os.path.join(harness.OUT, 'replays')
    os.makedirs(d, exist_ok=True)
    h = sig_hash(bucket['sig'])
    path = os.path.join(d, '%s-%s.json' % (prop, h))
    doc = {'property': prop, 'clause': bucket['clause'], 'signature': bucket['sig'],
           'case': bucket['case'], 'observed': bucket.get('observed'),
           'expected': bucket.get('expected'), 'count_in_run': bucket.get('count', 1)}
    with open(path, 'w') as f:
        json.dump(doc, f, indent=1, sort_keys=True, default=repr)
        f.write('\n')
    return os.path.relpath(path, VERIF) if harness.OUT == VERIF else path


AMBIENT_ENV = {'VERIF_AMBIENT': '1', 'TZ': 'Pacific/Kiritimati', 'PYTHONWARNINGS': 'default',
               # a process whose locale encoding is ASCII (no UTF-8 mode, no locale coercion): files opened without encoding=
               # are read as ASCII; the harness's own output stays UTF-8
               'LC_ALL': 'C', 'LANG': 'C', 'PYTHONUTF8': '0', 'PYTHONCOERCECLOCALE': '0', 'PYTHONIOENCODING': 'utf-8'}
AMBIENT_SETTINGS = ('python -O (asserts compiled away) -X int_max_str_digits=0, ASCII locale encoding (LC_ALL=C, no UTF-8 mode), TZ=Pacific/Kiritimati (UTC+14), a working directory holding decoy files named like the library\'s data files, '
                    'today\'s date five years on, node under LC_ALL=ar_EG.UTF-8, and around every library call made through '
                    'vlib.lib.call: decimal context prec=6 ROUND_FLOOR / prec=3 ROUND_UP (by a hash of the call), warnings raised as errors, sys.stderr = None')


def _ambient_cmd(prop, extra):
    return [sys.executable, '-O', '-X', 'int_max_str_digits=0', '-m', 'vlib.run', prop] + extra


def _decoy_dir(out):
    """The ambient child's working directory: holds files named like the library's own data files (every *.json under the
    package) but with other numbers in them - a library that looks for its data relative to the current directory finds these."""
    d = os.path.join(out, 'cwd')
    os.makedirs(d, exist_ok=True)

    def scale(x):
        if isinstance(x, float):
            return round(x * 0.5, 4)
        if isinstance(x, list):
            return [scale(v) for v in x]
        if isinstance(x, dict):
            return {k: scale(v) for k, v in x.items()}
        return x
    for root, _dirs, files in os.walk(os.path.join(REPO, 'athlib')):
        for fn in files:
            if fn.endswith('.json'):
                try:
                    with open(os.path.join(root, fn), encoding='utf-8') as f:
                        doc = json.load(f)
                    with open(os.path.join(d, fn), 'w') as f:
                        json.dump(scale(doc), f)
                except Exception:
                    pass
    return d


def _is_ambient_child():
    return os.environ.get('VERIF_AMBIENT') == '1'


def start_ambient(prop, tier, seed):
    """The same search once more in a child process under unusual ambient settings (see AMBIENT_SETTINGS): the answers the
    properties speak about do not depend on them.  Started before the main pass, collected after it."""
    import subprocess
    import tempfile
    out = tempfile.mkdtemp(prefix='athlib-ambient-%s-' % prop, dir='/dev/shm' if os.path.isdir('/dev/shm') else None)
    env = dict(os.environ, **AMBIENT_ENV)
    env['VERIF_OUT'] = out
    cwd = _decoy_dir(out)
    p = subprocess.Popen(_ambient_cmd(prop, ['--tier', tier, '--seed', str(seed)]), cwd=cwd, env=env,
                         stdout=subprocess.PIPE, stderr=subprocess.STDOUT, text=True, start_new_session=True)
    return p, out


def collect_ambient(prop, proc, out, ctx, parent_sigs):
    """Returns the list of (bucket-like dict) violations the ambient pass found and the main pass did not."""
    import shutil
    try:
        text, _ = proc.communicate(timeout=int(os.environ.get('VERIF_AMBIENT_TIMEOUT', '3000')))
    except Exception:
        import signal
        try:
            os.killpg(proc.pid, signal.SIGKILL)
        except Exception:
            pass
        shutil.rmtree(out, ignore_errors=True)
        raise HarnessError('the ambient pass did not finish (no verdict)')
    found = []
    try:
        if proc.returncode not in (0, 1):
            raise HarnessError('the ambient pass ended with a harness error:\n' + text[-1500:])
        evp = os.path.join(out, 'evidence', '%s.json' % prop)
        ev = json.load(open(evp))
        cov = ev['coverage']
        ctx.extra['ambient_pass'] = {'settings': AMBIENT_SETTINGS, 'evaluations': cov.get('evaluations'),
                                     'distinct_nontrivial': cov.get('distinct_nontrivial'), 'violations': ev.get('violations'),
                                     'wall_s': ev.get('wall_s')}
        ctx.count(int(cov.get('evaluations') or 0))
        ctx.label('ambient-pass-evaluations', int(cov.get('evaluations') or 0))
        rd = os.path.join(out, 'replays')
        for fn in sorted(os.listdir(rd)) if os.path.isdir(rd) else []:
            doc = json.load(open(os.path.join(rd, fn)))
            if '/'.join(doc['signature']) in parent_sigs:
                continue          # the main pass reports it already
            doc['signature'] = list(doc['signature']) + ['under-ambient-settings']
            doc['ambient'] = True
            found.append(doc)
    finally:
        shutil.rmtree(out, ignore_errors=True)
    return found


def do_replay(prop, path):
    mod = _load(prop)
    with open(path) as f:
        doc = json.load(f)
    if doc.get('ambient') and not _is_ambient_child():
        # found under the ambient settings: replayed under them (a child interpreter with the same flags and environment)
        import subprocess
        import tempfile
        import shutil
        out = tempfile.mkdtemp(prefix='athlib-ambient-replay-', dir='/dev/shm' if os.path.isdir('/dev/shm') else None)
        try:
            r = subprocess.run(_ambient_cmd(prop, ['--replay', os.path.abspath(path)]), cwd=_decoy_dir(out),
                               env=dict(os.environ, **AMBIENT_ENV))
        finally:
            shutil.rmtree(out, ignore_errors=True)
        return r.returncode
    if doc.get('ambient') and doc.get('signature') and doc['signature'][-1] == 'under-ambient-settings':
        doc['signature'] = doc['signature'][:-1]
    case = doc['case'] if 'case' in doc else doc
    vs = mod.examine(case)
    want = doc.get('signature')
    hit = [v for v in vs if want is None or v['sig'] == want] or vs
    if hit:
        for v in hit[:5]:
            print('replay: clause=%s sig=%s observed=%r expected=%r' % (
                v['clause'], '/'.join(v['sig']), v.get('observed'), v.get('expected')))
        print('VIOLATION property=%s replay=%s' % (prop, path))
        return 1
    print('replay: no violation for %s' % path)
    return 0


def do_run(prop, tier, seed):
    t0 = time.time()
    mod = _load(prop)
    ctx = Ctx(prop, tier, seed)
    open_known, fixed_known = harness.load_known(prop)
    open_sigs = {sig_hash(e['signature']): e for e in open_known}

    # 1. known findings: re-execute the stored example of each open entry
    for e in open_known:
        vs = mod.examine(e['example'])
        ctx.count()
        if any(v['sig'] == [str(s) for s in e['signature']] for v in vs):
            print('KNOWN-FINDING: property=%s %s' % (prop, e['what']))
        else:
            print('NOTE: known finding no longer reproduces (stale entry): %s' % e['what'])
        for v in vs:
            ctx.violation(v)

    # 2. regress replays (one minimal input per defect ever found, fixed ones included)
    nreg = 0
    for path in harness.regress_files(prop):
        with open(path) as f:
            doc = json.load(f)
        cases = doc['cases'] if 'cases' in doc else [doc['case']]
        for case in cases:
            nreg += 1
            ctx.count()
            for v in mod.examine(case):
                v = dict(v)
                v['regress_file'] = os.path.relpath(path, VERIF)
                ctx.violation(v)
    ctx.extra['regress_cases_replayed'] = nreg

    # 3. the generated search (and, for the checks that ask for it, the same search once more under unusual ambient settings)
    amb = None
    mode = getattr(mod, 'AMBIENT_PASS', False)
    if mode and not (mode == 'thorough-only' and tier != 'thorough') and not _is_ambient_child() and \
            os.environ.get('VERIF_NO_AMBIENT') != '1':
        # (the heavy history checks run their ambient pass at the quick tier's budgets also in the thorough tier)
        amb = start_ambient(prop, tier if mode is True else 'quick', ctx.seed)
    try:
        mod.run(ctx)
    except BaseException:
        if amb:
            try:
                import signal
                os.killpg(amb[0].pid, signal.SIGKILL)
            except Exception:
                pass
        raise

    # 4. classify
    nviol = 0
    lines = []
    for h, b in sorted(ctx.buckets.items()):
        if h in open_sigs:
            ctx.excluded_known['/'.join(b['sig'])] += b['count']
            continue
        nviol += 1
        shrink = getattr(mod, 'shrink', None)
        if shrink is not None:
            try:
                small = shrink(b)
                if small is not None:
                    b = dict(b, **small)
            except Exception:
                ctx.note('shrink failed for %s: %s' % ('/'.join(b['sig']),
                                                       traceback.format_exc(limit=1)))
        path = _write_replay(prop, b)
        print('violation: clause=%s sig=%s count=%d observed=%r expected=%r case=%s' % (
            b['clause'], '/'.join(b['sig']), b['count'], b.get('observed'), b.get('expected'),
            json.dumps(b['case'], default=repr)[:400]))
        lines.append('VIOLATION property=%s replay=%s' % (prop, path))
    ctx.extra['violation_signatures'] = [
        '/'.join(b['sig']) for h, b in sorted(ctx.buckets.items()) if h not in open_sigs]
    if amb:
        for doc in collect_ambient(prop, amb[0], amb[1], ctx, set('/'.join(b['sig']) for b in ctx.buckets.values())):
            if sig_hash(doc['signature'][:-1]) in open_sigs:
                continue
            nviol += 1
            d = os.path.join(harness.OUT, 'replays')
            os.makedirs(d, exist_ok=True)
            path = os.path.join(d, '%s-%s.json' % (prop, sig_hash(doc['signature'])))
            with open(path, 'w') as f:
                json.dump(doc, f, indent=1, sort_keys=True, default=repr)
                f.write('\n')
            path = os.path.relpath(path, VERIF) if harness.OUT == VERIF else path
            print('violation: clause=%s sig=%s count=%s observed=%r expected=%r case=%s' % (
                doc.get('clause'), '/'.join(doc['signature']), doc.get('count_in_run'), doc.get('observed'), doc.get('expected'),
                json.dumps(doc.get('case'), default=repr)[:400]))
            lines.append('VIOLATION property=%s replay=%s' % (prop, path))
            ctx.extra['violation_signatures'].append('/'.join(doc['signature']))

    ev = harness.write_evidence(ctx, mod.RULE, time.time() - t0, nviol,
                                assumptions=getattr(mod, 'ASSUMPTIONS', []))
    print('%s %s seed=%d: evaluations=%d distinct_nontrivial=%d excluded_known=%d '
          'violations=%d wall=%.1fs' % (prop, tier, ctx.seed, ctx.evaluations,
                                        ctx.distinct_nontrivial,
                                        sum(ctx.excluded_known.values()), nviol,
                                        time.time() - t0))
    for l in lines:
        print(l)
    if ctx.evaluations < 1 or ctx.distinct_nontrivial < 2:
        raise HarnessError('vacuous run: evaluations=%d distinct_nontrivial=%d' % (
            ctx.evaluations, ctx.distinct_nontrivial))
    return 1 if nviol else 0


def _budget_watchdog(seconds):
    """A run that exceeds its wall-clock budget (a generated case or a shard that never returns) ends as INCONCLUSIVE
    with exit 2 - a time budget is never a verdict - instead of hanging for ever."""
    import threading

    def expire():
        import multiprocessing
        print('HARNESS-ERROR: INCONCLUSIVE - wall-clock budget of %d s exceeded (a case or shard did not return); no verdict'
              % seconds)
        sys.stdout.flush()
        for c in multiprocessing.active_children():
            try:
                c.kill()
            except Exception:
                pass
        os._exit(2)
    t = threading.Timer(seconds, expire)
    t.daemon = True
    t.start()


def main(argv=None):
    ap = argparse.ArgumentParser()
    ap.add_argument('prop')
    ap.add_argument('--tier', default=os.environ.get('VERIF_TIER', 'quick'),
                    choices=['quick', 'thorough'])
    ap.add_argument('--replay')
    ap.add_argument('--seed', type=int, default=None)
    a = ap.parse_args(argv)
    prop = a.prop.upper()
    seed = a.seed if a.seed is not None else int(os.environ.get('VERIF_SEED', '1') or 1)
    _budget_watchdog(int(os.environ.get('VERIF_BUDGET_S', '0') or 0) or (4 * 3600 if a.tier == 'thorough' else 2700))
    try:
        _check_tree()
        if a.replay:
            return do_replay(prop, a.replay)
        return do_run(prop, a.tier, seed)
    except HarnessError as e:
        print('HARNESS-ERROR: %s' % e)
        return 2
    except SystemExit:
        raise
    except BaseException:
        traceback.print_exc()
        print('HARNESS-ERROR: unexpected exception in the machinery')
        return 2


if __name__ == '__main__':
    sys.stdout.reconfigure(line_buffering=True)
    sys.exit(main())
