"""C01 — combined-events points equal the official formula on the decimal mark."""
import random
from fractions import Fraction

import athlib
from vlib import athlon
from vlib.exact import centi_float, Undecidable
from vlib.harness import V, derive_seed, run_shards
from vlib.lib import call, mod

PROPERTY = 'C01'
AMBIENT_PASS = True        # the same search once more under unusual ambient settings (vlib.run.AMBIENT_SETTINGS)
RULE = ('rows = the 48 scoring-table rows + 3 veterans\' hurdles aliases + ESAA boys\' 800 m; marks on the '
        '0.01 grid from 0 to 5 % past the zero-point mark (timed) / 1.3 x the 1400-point mark (field): the '
        'complete grid for age=None, and for every age 1..110 the constructed hazard marks (mark*factor an '
        'exact multiple of 0.01, where binary residue decides floor/ceil) plus a seeded uniform sample; '
        'oracle = formula in exact rational / 60-digit decimal arithmetic; carriers float and int. '
        'non-trivial = (row, centi-mark, age band) with an age >= 35, or whose double product 100*mark is '
        'not integer-valued while the decimal one is; distinct by (row, mark, age)')
RULE = RULE + '; optional arguments also handed over by position (age fourth, esaa fifth)'
ASSUMPTIONS = ['libm pow is accurate to 1e-9 relative (used only when the result is > 1e-6 away from an integer; '
               '60-digit Decimal otherwise)',
               'events without a row in the combined-events factor table (60, 600, 3000, 5000, 10000, 3000SC) '
               'have no defined age-adjusted score: executed for crash-freedom only']
RULE = RULE + '; plus unknown pairs (fixed, generated from pieces of real keys, and as the first call after import) and, in the single-process pass, interleaved calls that raise'

UNKNOWN = [('M', 'XYZ'), ('X', '100'), ('F', '110H'), ('M', 'MAR'), ('F', '4x100'), ('Q', 'HJ'),
           ('M', '150'), ('F', 'SP4K'),
           # not even strings (an empty cell, a number keyed in): still "no score", not an error
           (None, '100'), ('M', None), ('F', 150), (5, '100'), (None, None), ('m', 12.5)]


def mark_range(row):
    """Upper end (centi-units) of the swept grid for a row."""
    g, e, te, A, Z, X, kind, esaa = row
    if kind == 'timed':
        return min(int(Z * 105), 435000 + 22000)
    # field: mark worth 1400 points, times 1.3
    base = (1400 / float(A)) ** (1 / float(X))
    if kind == 'jump':
        m = (base + float(Z)) / 100.0
    else:
        m = base + float(Z)
    return int(m * 130)


def age_class(age):
    if not age:
        return 'none'
    return 'young' if age < 35 else 'masters'


def examine_point(row, c, age, carriers=('float',), spelling=None):
    """Compare the library with the oracle at one point.  Returns (violations, nontrivial?).  `spelling` = (gender,
    event) as the caller writes them (the scoring key is case-insensitive)."""
    g, e, te, A, Z, X, kind, esaa = row
    case = {'kind': 'score', 'gender': g, 'event': e, 'centi': c, 'age': age, 'esaa': esaa}
    if spelling:
        case['spelling'] = list(spelling)
    try:
        want = athlon.exact_points(row, c, age)
    except Undecidable:
        return [], False, 'undecidable'
    out = []
    first = None
    for carrier in carriers:
        if carrier == 'int':
            if c % 100:
                continue
            value = c // 100
        else:
            value = centi_float(c)
        kw = {}
        if age is not None:
            kw['age'] = age
        if esaa:              # True = the ESAA boys' 800 m row; 'noop' = the option given to a row it does not concern
            kw['esaa'] = True
        gs, es = spelling if spelling else (g, e)
        r = call(athlib.athlon_score, gs, es, value, **kw)
        if want is None:
            # no factor defined for this event: only "no foreign exception" is demanded
            if r[0] == 'exc' and r[1] != 'ValueError':
                out.append(V('no-factor-row', ['no-factor-raises', r[1]], case, r, 'a value or ValueError'))
            return out, False, 'no_factor_defined'
        if r[0] == 'exc':
            out.append(V('returns-points', ['raises', r[1], age_class(age), r[3][0]], case, r, want))
            break
        p = r[1]
        if not isinstance(p, int) or isinstance(p, bool) or p < 0:
            out.append(V('non-negative-integer', ['type', type(p).__name__], case, p, want))
            break
        if p != want:
            # discriminate the root cause: does the library agree with the oracle on a neighbouring
            # centi (a rounding slip) or not at all?
            near = None
            for d in (-1, 1):
                try:
                    if athlon.exact_points(row, c + d, age) == p:
                        near = 'as-if-%+d-centi' % d
                except Undecidable:
                    pass
            out.append(V('equals-formula', ['points', kind, near or 'other', age_class(age)],
                         dict(case, carrier=carrier), p, want))
            break
        if first is None:
            first = p
            # the same call with the documented optional arguments handed over by position (age fourth, esaa fifth)
            if c % 7 == 0 or esaa:
                rp = call(athlib.athlon_score, gs, es, value, age, bool(esaa is True))
                if rp[:2] != r[:2]:
                    out.append(V('equals-formula', ['points', kind, 'positional-arguments-differ', age_class(age)],
                                 dict(case, carrier=carrier, positional=True), rp[:3], p))
                    break
        elif p != first:
            out.append(V('carrier-independent', ['carrier', kind], dict(case, carrier=carrier), p, first))
    v = centi_float(c)
    hazard = (100 * v != c)
    nt = bool(age and age >= 35) or hazard
    return out, nt, None


def examine(case):
    if case['kind'] == 'unknown':
        return examine_unknown(case)
    if case['kind'] == 'sequence':
        return examine_sequence(case)
    for row in all_rows():
        if row[0] == case['gender'] and row[1] == case['event'] and row[7] == (case.get('esaa') or False):
            return examine_point(row, case['centi'], case['age'], ('float', 'int'))[0]
    return []


def examine_unknown(case):
    if case.get('cold'):
        # the FIRST call after import (no lazily built table yet)
        reset_state()
        vs = examine_unknown(dict(case, cold=False))
        for v in vs:
            v['sig'] = v['sig'] + ['first-call-after-import']
            v['case'] = case
        return vs
    kw = {}
    if case.get('age') is not None:
        kw['age'] = case['age']
    r = call(athlib.athlon_score, case['gender'], case['event'], case['value'], **kw)
    if r != ('ret', None):
        return [V('unknown-pair-gives-none',
                  ['unknown', r[1] if r[0] == 'exc' else 'value', 'age' if kw else 'noage'], case, r, None)]
    return []


def hazard_marks(fr, hi, cap, rng):
    """Centi-marks c <= hi with c*fr an integer (exact multiples of 0.01 after the factor)."""
    step = fr.denominator  # c * n/d integer  <=>  d | c  (n/d in lowest terms)
    ms = list(range(step, hi + 1, step))
    if len(ms) > cap:
        ms = rng.sample(ms, cap)
    return ms


def all_rows():
    return athlon.rows() + athlon.rows_with_option()


def shard(ctx, payload):
    ri, mode = payload
    row = all_rows()[ri]
    g, e, te, A, Z, X, kind, esaa = row
    hi = mark_range(row)
    rng = random.Random(derive_seed(ctx.seed, 'C01', ri))
    thorough = ctx.tier == 'thorough'
    rowname = '%s-%s%s' % (g, e, '-esaa' if esaa else '')

    def do(c, age, carriers=('float', 'int')):
        ctx.count()
        vs, nt, why = examine_point(row, c, age, carriers)
        if why:
            ctx.label(why)
        ctx.violations(vs)
        if nt:
            sample = None
            if len(ctx.nt_keys) % 50000 == 7:
                sample = {'row': rowname, 'mark': c / 100.0, 'age': age,
                          'oracle_points': athlon.exact_points(row, c, age)}
            ctx.nontrivial((ri, c, age), sample)

    # (1) age=None: the complete grid (both tiers)
    if mode == 'grid-option':
        # the ESAA option on a row it does not concern: a strided grid, a few ages
        stride = 1 if thorough else 9
        off = rng.randrange(stride)
        for c in range(off, hi + 1, stride):
            do(c, None, ('float',))
        for age in (20, 47, 83):
            for c in rng.sample(range(0, hi + 1), 60):
                do(c, age, ('float',))
        ctx.label('esaa-option-on-other-rows', 1)
        return
    if mode == 'grid':
        stride = 1
        off = rng.randrange(stride)
        for c in range(0, hi + 1):
            if stride > 1 and (c % stride) != off and 100 * centi_float(c) == c:
                continue
            do(c, None)
        ctx.label('age-none-grid', 1)
        return
    # (2) ages 1..34 behave as no age; age 0 too
    n_young = 200 if thorough else 40
    for age in [0] + list(range(1, 35)):
        for c in rng.sample(range(0, hi + 1), n_young):
            do(c, age, ('float',))
    # (2b) ages in years and months (floats): the band is that of the COMPLETED years - 34.6 is still below the first band,
    # 39.5 and 39.9 are still V35, 110.7 uses the last band
    for age in (34.4, 34.6, 34.99, 35.5, 39.5, 39.6, 39.9, 44.5, 49.9, 64.9, 79.51, 109.6, 110.7):
        if athlon.exact_factor(g, e, age) is None:
            continue
        for c in rng.sample(range(0, hi + 1), 12 if not thorough else 60):
            do(c, age, ('float',))
    ctx.label('fractional-ages', 1)
    # (3) masters ages: constructed hazards + uniform sample
    n_uni = 3000 if thorough else 300
    cap = 3000 if thorough else 400
    for age in range(35, 111):
        f = athlon.exact_factor(g, e, age)
        if f is None:
            for c in rng.sample(range(0, hi + 1), 5):
                do(c, age, ('float',))
            continue
        fhi = int(hi / float(f)) + 1
        marks = set(hazard_marks(f, fhi, cap, rng))
        ctx.label('hazard-marks', len(marks))
        marks.update(rng.sample(range(0, fhi + 1), min(n_uni, fhi + 1)))
        for c in sorted(marks):
            do(c, age)


_snap = None


def reset_state():
    """Module state of athlon_score back to what it was right after import (coefficient rows, lazy table)."""
    global _snap
    from vlib.statesnap import Snap
    if _snap is None:
        _snap = Snap(mod('athlon_score'))
    _snap.restore()


reset_state()        # snapshot at import, before anything is scored


def examine_sequence(case):
    """Points scored one after the other from the just-imported state; every one is judged (the last is the finding)."""
    reset_state()
    by = {(r[0], r[1], r[7]): r for r in all_rows()}
    out = []
    for pt in case['points']:
        if pt and pt[0] == 'noise':
            run_noise(pt)
            continue
        g, e, c, age, esaa = pt[:5]
        row = by.get((g, e, esaa or False))
        if row is None:
            continue
        out = examine_point(row, c, age, ('float',), tuple(pt[5]) if len(pt) > 5 else None)[0]
    for v in out:
        v['sig'] = v['sig'] + ['interleaved-rows']
        v['case'] = case
    return out


def run_noise(pt):
    """['noise', function, args, kwargs]: an unrelated call between two judged ones - an unknown pair, a call that raises
    (no factor row for the event, bad age), the inverse function."""
    fn = {'score': athlib.athlon_score, 'needed': athlib.athlon_performance_needed,
          'afactor': athlib.wma_athlon_age_factor}[pt[1]]
    return call(fn, *pt[2], **(pt[3] if len(pt) > 3 else {}))


NOISE = [['noise', 'score', ['X', '100', 11.5], {}], ['noise', 'score', ['?', 'NA', 42], {'age': 40}],
         ['noise', 'score', ['M', '3000', 560.0], {'age': 50}], ['noise', 'score', ['F', '600', 100], {'age': 52}],
         ['noise', 'score', ['M', '100', 'fast'], {}], ['noise', 'score', ['M', '100', 11.0], {'age': 'old'}],
         ['noise', 'needed', ['M', 'NA', 500], {}], ['noise', 'needed', ['F', 'HJ', 900], {}],
         ['noise', 'needed', ['M', '800', -3], {}], ['noise', 'afactor', ['M', 50, 'NOPE'], {}],
         ['noise', 'afactor', ['x', 50, '100'], {}], ['noise', 'score', ['M', '800', 125.0], {'esaa': True, 'age': 45}]]


def mixed_pass(ctx, rows):
    """History independence: the shards above visit one row per process, so state leaking from one call into a later
    one (a cache keyed too coarsely, a shared row edited in place by the ESAA option) would stay invisible.  Here all
    rows, ages and the ESAA option are interleaved in ONE process in seeded shuffled segments of 25 calls, each segment
    starting from the just-imported module state (so a finding replays); every answer is compared with the exact oracle."""
    rng = random.Random(derive_seed(ctx.seed, 'C01-mixed'))
    cases = []
    for ri, row in enumerate(rows):
        hi = mark_range(row)
        for _ in range(250 if ctx.tier == 'thorough' else 120):
            age = rng.choice([None, None, 0, rng.randrange(1, 35), rng.randrange(35, 111), rng.randrange(35, 111)])
            cases.append((ri, rng.randrange(0, hi + 1), age))
    rng.shuffle(cases)
    n = 0
    for i in range(0, len(cases), 25):
        reset_state()
        seg = []
        for ri, c, age in cases[i:i + 25]:
            row = rows[ri]
            sp = None
            if rng.randrange(5) == 0:
                seg.append(rng.choice(NOISE))
                run_noise(seg[-1])
            if row[1] == row[2] and rng.randrange(6) == 0:       # not for the veterans' aliases (upper case by definition)
                sp = rng.choice([(row[0].lower(), row[1].lower()), (row[0], row[1].lower()), (row[0].lower(), row[1]),
                                 (row[0], row[1].title())])
            seg.append([row[0], row[1], c, age, row[7]] + ([list(sp)] if sp else []))
            ctx.count()
            n += 1
            vs, nt, why = examine_point(row, c, age, ('float',), sp)
            if vs:
                for v in vs:
                    v['sig'] = v['sig'] + ['interleaved-rows']
                    v['case'] = {'kind': 'sequence', 'points': list(seg)}
                ctx.violations(vs)
                break
    ctx.label('mixed-single-process-pass', n)


def shrink(bucket):
    case = bucket['case']
    if case.get('kind') != 'sequence':
        return None
    sig = bucket['sig']
    pts = list(case['points'])

    def fails(p):
        return any(v['sig'] == sig for v in examine_sequence({'kind': 'sequence', 'points': p}))
    if not fails(pts):
        return None
    i = 0
    while i < len(pts) - 1:
        t = pts[:i] + pts[i + 1:]
        if fails(t):
            pts = t
        else:
            i += 1
    v = [v for v in examine_sequence({'kind': 'sequence', 'points': pts}) if v['sig'] == sig][0]
    return {'case': v['case'], 'observed': v['observed']}


def run(ctx):
    rows = athlon.rows()
    allr = all_rows()
    payloads = [(i, 'grid') for i in range(len(rows))] + [(i, 'ages') for i in range(len(rows))] + \
        [(i, 'grid-option') for i in range(len(rows), len(allr))]
    # rows and modes partition the domain: distinct counts add up
    run_shards(ctx, 'checks.c01', 'shard', payloads, disjoint=True)
    for g, e in UNKNOWN:
        for age in (None, 0, 20, 40, 77):
            for value in (0, 10.5, 100, 2000.0):
                case = {'kind': 'unknown', 'gender': g, 'event': e, 'value': value, 'age': age}
                ctx.count()
                ctx.label('unknown-pair')
                ctx.violations(examine_unknown(case))
                if value == 10.5:
                    ctx.count()
                    ctx.label('unknown-pair-as-first-call')
                    ctx.violations(examine_unknown(dict(case, cold=True)))
    # generated unknown pairs: pieces of real keys glued with the characters a key is built from ('-', blanks, case), so that
    # whatever the lookup does with the two strings (joins, splits, upper-cases them) an unknown pair still gives None
    known = set((r[0].upper(), r[1].upper()) for r in allr) | set((r[0].upper(), r[2].upper()) for r in allr)
    urng = random.Random(derive_seed(ctx.seed, 'C01-unknown'))
    pieces = ['M', 'F', 'm', 'f', '100', '100H', 'HJ', 'PEN', 'U20', '-', '-', ' ', '', 'X', '?', 'None', '800', 'I', 'Y', '%s', '%',
              '110H', '80H', '0', '1e3']
    made = 0
    while made < (3000 if ctx.tier == 'thorough' else 600):
        g = ''.join(urng.choice(pieces) for _ in range(urng.randrange(0, 3)))
        e = ''.join(urng.choice(pieces) for _ in range(urng.randrange(0, 4)))
        if (g.upper(), e.upper()) in known:
            continue
        made += 1
        case = {'kind': 'unknown', 'gender': g, 'event': e, 'value': urng.choice([0, 10.5, 100, 2000.0]),
                'age': urng.choice([None, None, 20, 40, 77])}
        ctx.count()
        ctx.label('unknown-pair-generated')
        ctx.violations(examine_unknown(case))
    reset_state()
    mixed_pass(ctx, allr)
    ctx.extra['rows'] = len(rows)
    ctx.exhaustive = False
    if True:
        ctx.note('age=None: the complete 0.01 grid of every row was enumerated')
