#!/bin/sh
# usage: tools/seedbatch.sh <suffix> C01 C02 ...   - copy /tmp/wt/Cnn/_seed to seeded/Cnn-<suffix> and evaluate (4 at a time)
cd "$(dirname "$0")/.." || exit 2
sfx=$1; shift
n=0
for c in "$@"; do
  [ -f /tmp/wt/$c/_seed/patch.diff ] || { echo "$c: no _seed/patch.diff"; continue; }
  mkdir -p seeded/$c-$sfx && cp /tmp/wt/$c/_seed/patch.diff /tmp/wt/$c/_seed/demo.py seeded/$c-$sfx/ && cp /tmp/wt/$c/_seed/notes.md seeded/$c-$sfx/ 2>/dev/null
  tools/seedmeta.py seeded/$c-$sfx &
  n=$((n+1)); if [ $((n % 4)) -eq 0 ]; then wait; fi
done
wait
