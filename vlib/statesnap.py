"""Snapshot / restore of a library module's mutable module-level state, so that a generated call history can be replayed
from a defined starting point inside one process (the state right after import)."""
import copy
import types


def _mutable(v):
    return isinstance(v, (dict, list, set))


class Snap(object):
    def __init__(self, module):
        self.module = module
        self.saved = {}
        for k, v in vars(module).items():
            if k.startswith('__') or isinstance(v, (types.ModuleType, types.FunctionType, type)) or callable(v):
                continue
            if _mutable(v) or isinstance(v, tuple) or v is None or isinstance(v, (int, float, str, bool)):
                try:
                    self.saved[k] = copy.deepcopy(v)
                except Exception:
                    pass

    def restore(self):
        m = self.module
        for k, v in self.saved.items():
            cur = getattr(m, k, None)
            self._restore(m, k, cur, v)
        # names created after the snapshot (lazy caches added by a change) and not part of it
        for k, v in list(vars(m).items()):
            if k not in self.saved and _mutable(v) and not k.startswith('__'):
                try:
                    v.clear()
                except Exception:
                    pass

    def _restore(self, owner, key, cur, saved):
        if isinstance(saved, dict) and isinstance(cur, dict):
            if cur != saved:
                cur.clear()
                cur.update(copy.deepcopy(saved))
        elif isinstance(saved, list) and isinstance(cur, list):
            if cur != saved:
                cur[:] = copy.deepcopy(saved)
        elif isinstance(saved, set) and isinstance(cur, set):
            if cur != saved:
                cur.clear()
                cur.update(saved)
        elif isinstance(saved, tuple) and isinstance(cur, tuple) and len(cur) == len(saved):
            for i, (c, s) in enumerate(zip(cur, saved)):
                if _mutable(s) or isinstance(s, tuple):
                    self._restore(None, None, c, s)
        else:
            if owner is not None and cur is not saved and cur != saved:
                setattr(owner, key, copy.deepcopy(saved))
            elif owner is not None and cur is None and saved is None:
                pass
