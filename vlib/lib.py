"""Access to the code under test."""
import os
import sys
import traceback
import linecache

from .harness import REPO

import athlib  # noqa: E402  (PYTHONPATH puts /repo first; vlib.run asserts it)

ATHLIB_DIR = os.path.realpath(os.path.join(REPO, 'athlib'))


def mod(name):
    """Sub-module by dotted name (package re-exports shadow e.g. athlib.athlon_score)."""
    full = 'athlib.' + name
    if full not in sys.modules:
        __import__(full)
    return sys.modules[full]


def innermost_athlib_frame(tb):
    """(function, stripped source line) of the innermost frame inside athlib."""
    found = None
    for fs in traceback.extract_tb(tb):
        try:
            if os.path.realpath(fs.filename).startswith(ATHLIB_DIR):
                found = (fs.name, (fs.line or '').strip())
        except Exception:
            pass
    return found or ('<outside athlib>', '')


# The AMBIENT pass (vlib.run starts it as a child process: python -O, another time zone, VERIF_AMBIENT=1): every library call
# made through call() runs under settings of the surrounding program that are normally left at their defaults - the decimal
# module's working precision and rounding mode, warnings turned into errors - and must give the same answers all the same.
AMBIENT = os.environ.get('VERIF_AMBIENT') == '1'
_AMB_CTX = None
_AMB_N = 0


def _ambient_context():
    import decimal
    global _AMB_CTX, _AMB_N
    if _AMB_CTX is None:
        _AMB_CTX = [decimal.Context(prec=6, rounding=decimal.ROUND_FLOOR), decimal.Context(prec=3, rounding=decimal.ROUND_UP)]
    _AMB_N += 1
    return _AMB_CTX[_AMB_N % 2]


def call(f, *a, **k):
    """Run f; return ('ret', value) or ('exc', ExceptionTypeName, message, (func, line))."""
    if AMBIENT:
        import decimal
        import warnings
        old = decimal.getcontext()
        decimal.setcontext(_ambient_context().copy())
        try:
            with warnings.catch_warnings():
                warnings.simplefilter('error')
                try:
                    return ('ret', f(*a, **k))
                except Exception as e:
                    return ('exc', type(e).__name__, str(e)[:200], innermost_athlib_frame(e.__traceback__))
        finally:
            decimal.setcontext(old)
    try:
        return ('ret', f(*a, **k))
    except Exception as e:
        return ('exc', type(e).__name__, str(e)[:200], innermost_athlib_frame(e.__traceback__))


def is_exc(r, *names):
    return r[0] == 'exc' and (not names or r[1] in names)
