"""C06 — times are never rounded down: decimal rounding, formatting and parsing agree."""
import itertools
import math
import random
import re
from fractions import Fraction

import hypothesis
from hypothesis import given, settings, strategies as st, HealthCheck, Phase

import athlib
from vlib.harness import V, derive_seed, run_shards
from vlib.lib import call

PROPERTY = 'C06'
AMBIENT_PASS = True        # the same search once more under unusual ambient settings (vlib.run.AMBIENT_SETTINGS)
RULE = ('(a) round_up_str_num: ALL strings [integer part: every string of 0-4 digits over {0,1,9}, incl. empty and leading '
        'zeros][.][0-5 fraction digits over {0,1,4,5,9}] x prec 0..5, plus 6-7 fraction digits sampled and no-point strings; '
        'oracle = exact ceiling in Fraction of the first 5 fraction digits; (b) format_seconds_as_time: durations on the '
        '0.001 s grid in windows around minute/hour boundaries up to 100 h (a seeded set of boundaries in quick, all 6000 in '
        'thorough) plus a stride sample, plus residue floats (a+b, a*b, n*0.01, 100*x/100, k +- 1e-4..1e-16), prec 0..3 and '
        'the bad precisions; oracle = output shape, fields < 60, and d - 1e-5 <= parse_hms(output) < d + 10^-prec compared '
        'in Fraction on the exact value of the double; (c) parse_hms: 1-4 fields of digit strings with optional fraction and '
        'either separator (exact sexagesimal value, ints stay int) and arbitrary text (number or ValueError only); '
        'non-trivial = (a) a carry into the integer part or an empty/zero-led integer part, (b) a duration within 10^-prec of '
        'a minute/hour boundary or with a residue below 1e-4, (c) a text with >= 2 fields; distinct inputs')
RULE = RULE + '; parse_hms floats to 8 ulp with fractions of up to 15 digits; round_up_str_num also with integer parts of 20-45 digits and under a lowered decimal context'
ASSUMPTIONS = ['"noise beyond the fifth decimal" is given the stated tolerance 1e-5 on the lower bound of (b)',
               'float results of parse_hms are compared with the exact sexagesimal sum to 8 units in the last place']
RULE = RULE + '; also fields dressed the way int() tolerates, fields beyond 2**53 and of hundreds of digits, number carriers of parse_hms, int durations at every precision and left-out precisions'

FRAC_DIGITS = '01459'
INT_DIGITS = '019'
NOISE = Fraction(1, 100000)


# ---------------------------------------------------------------------------------------------
# (a) round_up_str_num

def exact_round_up(s, prec):
    if '.' in s:
        i, f = s.split('.', 1)
    else:
        i, f = s, ''
    f = f[:5]
    val = Fraction(int(i) if i else 0) + (Fraction(int(f), 10 ** len(f)) if f else 0)
    scaled = val * 10 ** prec
    c = -((-scaled.numerator) // scaled.denominator)
    return Fraction(c, 10 ** prec), (c // 10 ** prec) > (int(i) if i else 0)


def examine_round(case):
    s, prec = case['s'], case['prec']
    want, carried = exact_round_up(s, prec)
    r = call(athlib.round_up_str_num, s, prec)
    if r[0] == 'exc':
        return [V('round-up', ['round_up', 'raises', r[1]], case, r[:3], str(want))]
    t = r[1]
    shape = re.match(r'^\d*\.\d{%d}$' % prec, t) if prec else re.match(r'^\d+$', t)
    if not isinstance(t, str) or not shape or t in ('', '.'):
        return [V('round-up', ['round_up', 'shape', 'prec0' if prec == 0 else 'prec>0'], case, t, str(want))]
    try:
        got = Fraction(t if not t.startswith('.') else '0' + t)
    except Exception:
        return [V('round-up', ['round_up', 'unparseable'], case, t, str(want))]
    if got != want:
        return [V('round-up', ['round_up', 'value', 'below' if got < want else 'above'], case, t, str(want))]
    if case.get('ambient'):
        # the answer is a matter of the digits written: settings of the surrounding program (the decimal module's working
        # precision / rounding mode, which other code may have lowered or changed) must not enter into it
        import decimal
        with decimal.localcontext() as c_:
            c_.prec = 5
            c_.rounding = decimal.ROUND_DOWN
            r2 = call(athlib.round_up_str_num, s, prec)
        if r2[:2] != r[:2]:
            return [V('round-up', ['round_up', 'depends-on-decimal-context'], case, r2[:3], t)]
    return []


def shard_round(ctx, payload):
    ipart, thorough = payload
    rng = random.Random(derive_seed(ctx.seed, 'C06a', ipart))
    fracs = ['']
    for n in range(1, 6):
        fracs += [''.join(p) for p in itertools.product(FRAC_DIGITS, repeat=n)]
    for _ in range(3000 if thorough else 300):
        fracs.append(''.join(rng.choice('0123456789') for _ in range(rng.choice([6, 7]))))
    for f in fracs:
        forms = [ipart + '.' + f]
        if not f and ipart:
            forms.append(ipart)
        for s in forms:
            if s == '.' and not ipart:
                pass
            for prec in range(6):
                case = {'kind': 'round', 's': s, 'prec': prec}
                if len(f) >= 4 and (len(s) + prec) % 5 == 0:
                    case['ambient'] = True
                ctx.count()
                vs = examine_round(case)
                if vs:
                    ctx.violations(vs)
                carried = exact_round_up(s, prec)[1]
                if carried or ipart == '' or ipart.startswith('0'):
                    ctx.nontrivial(('a', s, prec), dict(case, result=call(athlib.round_up_str_num, s, prec)[1])
                                   if len(ctx.nt_keys) % 40000 == 3 else None)
    ctx.label('round_up_str_num', 0)


# ---------------------------------------------------------------------------------------------
# (b) format_seconds_as_time

def examine_format(case):
    d, prec = case['seconds'], case['prec']
    r = call(athlib.format_seconds_as_time, d, prec)
    if not (isinstance(prec, int) and not isinstance(prec, bool) and 0 <= prec <= 3):
        if not (r[0] == 'exc' and r[1] == 'ValueError'):
            return [V('bad-precision-refused', ['format', 'bad-prec'], case, r[:3], 'ValueError')]
        return []
    if r[0] == 'exc':
        return [V('format', ['format', 'raises', r[1]], case, r[:3])]
    t = r[1]
    pat = r'^(?:(\d+):(\d\d):(\d\d)|(\d+):(\d\d)|(\d+))' + (r'\.\d{%d}$' % prec if prec else '$')
    m = re.match(pat, t) if isinstance(t, str) else None
    residue = 'tiny-fraction' if 0 < d - math.floor(d) < 1e-4 else 'plain'
    if not m:
        return [V('format-shape', ['format', 'shape', residue], case, t)]
    out = []
    if m.group(1) is not None:
        mm, ss = int(m.group(2)), int(m.group(3))
    elif m.group(4) is not None:
        mm, ss = 0, int(m.group(5))
    else:
        mm, ss = 0, 0 if int(m.group(6)) < 60 else 99
    if mm >= 60 or ss >= 60:
        out.append(V('format-shape', ['format', 'field>=60', residue], case, t))
    p = call(athlib.parse_hms, t)
    if p[0] == 'exc':
        out.append(V('format-parses-back', ['format', 'unparseable', residue], case, t))
        return out
    P = Fraction(p[1]) if isinstance(p[1], int) else Fraction(repr(p[1]))
    D = Fraction(d)             # exact value of the double (or int)
    if P < D - NOISE:
        out.append(V('never-rounded-down', ['format', 'rounded-down', residue], case, [t, float(P - D)]))
    elif not P < D + Fraction(1, 10 ** prec) + (Fraction(1, 10 ** 9) if prec == 3 else 0):
        out.append(V('less-than-one-unit-above', ['format', 'too-far-above', residue], case, [t, float(P - D)]))
    return out


def expected_text(value, prec):
    """h:mm:ss text of the exact duration `value` (a Fraction with at most 5 decimals) rounded UP to `prec` decimals."""
    units = -((-value * 10 ** prec) // 1)           # ceiling
    secs, frac = divmod(int(units), 10 ** prec)
    h, rem = divmod(secs, 3600)
    m, sec = divmod(rem, 60)
    t = '%d:%02d:%02d' % (h, m, sec) if h else '%d:%02d' % (m, sec) if m else '%d' % sec
    return t + ('.%0*d' % (prec, frac) if prec else '')


def examine_format_exact(case):
    """A duration handed over as an exact number (Decimal, Fraction - finer than any double at its size): the text is that of
    the value itself, rounded up."""
    from decimal import Decimal
    txt, prec = case['value'], case['prec']
    want = expected_text(Fraction(txt), prec)
    out = []
    for name, v in (('Decimal', Decimal(txt)), ('Fraction', Fraction(txt))):
        # (called outside the ambient decimal contexts: arithmetic on a caller's Decimal is the caller's context's by definition)
        try:
            r = ('ret', athlib.format_seconds_as_time(v, prec))
        except Exception as e:
            r = ('exc', type(e).__name__, str(e)[:200])
        if r[0] == 'exc':
            out.append(V('format', ['format', 'raises', r[1], 'exact-carrier'], dict(case, carrier=name), r[:3], want))
        elif r[1] != want:
            below = 'rounded-down' if isinstance(r[1], str) and r[1] < want and len(r[1]) <= len(want) else 'differs'
            out.append(V('never-rounded-down', ['format', 'exact-carrier', below], dict(case, carrier=name), r[1], want))
        if out:
            break
    return out


def residue_floats(rng, n):
    out = []
    for _ in range(n):
        k = rng.randrange(10)
        a = rng.randrange(0, 400000) / 1000.0
        b = rng.randrange(0, 60000) / 1000.0
        if k == 0:
            out.append(a + b)
        elif k == 1:
            out.append(a * (rng.randrange(1, 50) / 10.0))
        elif k == 2:
            out.append(rng.randrange(0, 1000000) * 0.01)
        elif k == 3:
            out.append(100 * a / 100)
        elif k == 4:
            out.append(a + 0.1 + 0.2)
        else:
            base = rng.choice([0, 1, 59, 60, 61, 3599, 3600, 3601, 65, 119, 120, rng.randrange(0, 360000)])
            delta = 10.0 ** -rng.randrange(4, 17)
            out.append(base + delta if rng.randrange(3) else max(0.0, base - delta))
    return out


def shard_format(ctx, payload):
    boundaries, nres, nstride = payload
    rng = random.Random(derive_seed(ctx.seed, 'C06b', ctx.shard))

    def do(d, prec):
        case = {'kind': 'format', 'seconds': d, 'prec': prec}
        ctx.count()
        vs = examine_format(case)
        if vs:
            ctx.violations(vs)
        if isinstance(prec, int) and 0 <= prec <= 3:
            fr = d - math.floor(d)
            near = (d % 60) > 60 - 10 ** -prec or (d % 60) < 10 ** -prec
            if near or 0 < fr < 1e-4:
                ctx.nontrivial(('b', repr(d), prec), dict(case, result=call(athlib.format_seconds_as_time, d, prec)[1])
                               if len(ctx.nt_keys) % 30000 == 5 else None)

    for bsec, half in boundaries:
        for ms in range(max(0, bsec * 1000 - half), bsec * 1000 + half + 1):
            d = ms / 1000.0
            for prec in (0, 1, 2, 3):
                do(d, prec)
    for d in residue_floats(rng, nres):
        for prec in (0, 1, 2, 3):
            do(d, prec)
    for _ in range(nstride):
        d = rng.randrange(0, 360000000) / 1000.0
        for prec in (0, 1, 2, 3):
            do(d, prec)
        if rng.randrange(4) == 0:
            do(int(d), rng.randrange(4))
    for d in (0, 0.0, 27.3, 59.999, 3599.9999, 86399.5):
        for prec in (4, -1, '2', None, 2.0):
            do(d, prec)
    ctx.label('format_seconds_as_time', 0)


# ---------------------------------------------------------------------------------------------
# (c) parse_hms

_FIELD = re.compile(r'^\d+(\.\d*)?$|^\.\d+$')


def examine_parse(case):
    if 'default_of' in case:
        # an omitted precision is the documented default (0 for the formatter, 2 for the round-up helper); an int duration is
        # the same duration
        x = case['value']
        if case['default_of'] == 'format':
            a, b = call(athlib.format_seconds_as_time, x), call(athlib.format_seconds_as_time, x, 0)
            c = call(athlib.format_seconds_as_time, float(x), 0) if isinstance(x, int) and abs(x) < 2 ** 53 else b
            if isinstance(x, int) and abs(x) < 2 ** 53:
                # an int duration (what parse_hms returns for '1:03') at every precision: the same text as for the float
                for p in (1, 2, 3):
                    ai, af = call(athlib.format_seconds_as_time, x, p), call(athlib.format_seconds_as_time, float(x), p)
                    if ai[:2] != af[:2]:
                        return [V('default-precision', ['format', 'int-duration-differs'], dict(case, prec=p), ai[:2], af[:2])]
        else:
            a, b = call(athlib.round_up_str_num, x), call(athlib.round_up_str_num, x, 2)
            c = b
        if a[:2] != b[:2] or c[:2] != b[:2]:
            return [V('default-precision', [case['default_of'], 'default-differs'], case, [a[:2], c[:2]], b[:2])]
        return []
    if 'number' in case:
        # the documented numeric carriers: a number is its own value, type included ("integers stay integers")
        x = case['number']
        r = call(athlib.parse_hms, x)
        if r[0] != 'ret' or type(r[1]) is not type(x) or r[1] != x:
            return [V('parse-exact', ['parse', 'number-carrier', type(x).__name__], case, repr(r[:2]), repr(x))]
        return []
    t = case['text']
    r = call(athlib.parse_hms, t)
    out = []
    if r[0] == 'exc':
        if r[1] != 'ValueError':
            return [V('parse-total', ['parse', 'raises', r[1]], case, r[:3], 'a number or ValueError')]
    elif not isinstance(r[1], (int, float)) or isinstance(r[1], bool):
        return [V('parse-total', ['parse', 'type', type(r[1]).__name__], case, r[1])]
    # structured texts: exact sexagesimal value
    for sep in ':;':
        if sep in t:
            fields = t.split(sep)
            break
    else:
        fields = [t]
    if any(len(f) > 4000 for f in fields):
        return out          # beyond Python's own limit for reading an integer from text: only "number or ValueError" applies
    stripped = [f.strip() for f in fields]
    if stripped != fields and r[0] == 'ret' and all(f.isascii() and re.match(r'^\+?\d+$', f) for f in stripped):
        # integer fields dressed the way int() tolerates (a plus sign, blanks, a trailing newline): the library need not
        # accept them, but when it does "integers stay integers" holds for them too
        exact = 0
        for f in stripped:
            exact = exact * 60 + int(f)
        if not isinstance(r[1], int) or isinstance(r[1], bool) or r[1] != exact:
            out.append(V('parse-exact', ['parse', 'int-value', 'dressed-fields'], case, repr(r[1]), str(exact)))
        return out
    if all(f.isascii() and _FIELD.match(f) for f in fields):
        exact = Fraction(0)
        for f in fields:
            exact = exact * 60 + Fraction(f if not f.startswith('.') else '0' + f)
        all_int = all(f.isdigit() for f in fields)
        if r[0] == 'exc':
            if all_int or exact <= Fraction(10) ** 300:
                # (a value with a decimal part beyond the range of floats has no number to return: refusing it is allowed)
                out.append(V('parse-exact', ['parse', 'refused-well-formed'], case, r[:3], str(exact)))
        elif all_int:
            if not isinstance(r[1], int) or r[1] != exact:
                out.append(V('parse-exact', ['parse', 'int-value'], case, r[1], str(exact)))
        elif isinstance(r[1], float) and (math.isinf(r[1]) or math.isnan(r[1])):
            if exact <= Fraction(10) ** 300:       # (beyond the range of floats there is no better float than inf)
                out.append(V('parse-exact', ['parse', 'float-value', 'not-finite'], case, repr(r[1]), str(exact)))
        else:
            got = Fraction(r[1])
            # "the exact sexagesimal value": the nearest doubles - a sum of at most four fields formed in floating point may
            # be a few units in the last place off, not more (a value settled at some decimal place is not the value written)
            tol = 8 * Fraction(math.ulp(float(exact))) if exact < Fraction(10) ** 300 else abs(exact) * Fraction(1, 10 ** 9)
            if abs(got - exact) > tol:
                out.append(V('parse-exact', ['parse', 'float-value'], case, repr(r[1]), str(exact)))
    return out


def gen_structured(rng, literals=True):
    n = rng.choice([1, 1, 2, 2, 2, 3, 3, 4])
    sep = rng.choice([':', ':', ';'])
    fs = []
    for _ in range(n):
        k = rng.randrange(8)
        f = str(rng.randrange(0, 100)) if k < 5 else ('%02d' % rng.randrange(60)) if k < 6 else str(rng.randrange(0, 100000))
        k = rng.randrange(6)
        if k == 0:
            f += '.' + ''.join(rng.choice('0123456789') for _ in range(rng.randrange(0, 5) if rng.randrange(3) else rng.randrange(5, 14)))
        fs.append(f)
    if rng.randrange(3) == 0:
        # (now and then far more decimals than any stopwatch gives: the value written is still the value)
        nd = rng.randrange(1, 4) if rng.randrange(4) else rng.randrange(4, 16)
        fs[-1] = fs[-1].split('.')[0] + '.' + ''.join(rng.choice('0123456789') for _ in range(nd))
    if rng.randrange(8) == 0:
        # fields dressed the way int() / float() tolerate: plus sign, blanks, trailing newline; now and then beyond 2**53
        i = rng.randrange(len(fs))
        if rng.randrange(6) == 0:
            fs[i] = str(2 ** 53 + rng.randrange(1, 2000))
        elif rng.randrange(8) == 0:
            # hundreds of digits: beyond any float (next to a decimal field the sum cannot be formed)
            fs[i] = str(rng.randrange(1, 10)) + '0' * rng.randrange(300, 420)
        k = rng.randrange(6)
        fs[i] = [' ' + fs[i], fs[i] + ' ', '+' + fs[i], '\t' + fs[i], ' +' + fs[i] + ' ', fs[i]][k]
        if k == 5:
            fs[-1] = fs[-1] + '\n'
    if literals and rng.randrange(15) == 0:
        # fields that other number constructors would take (fractions, exponents, underscores, infinities): junk here
        i = rng.randrange(len(fs))
        fs[i] = rng.choice(['1/0', '0/0', '3/4', '7/0', '1e3', '1_0', 'inf', 'nan', '-1', '0x10', '1/', '/2', '1e400', '١٢'])
    t = sep.join(fs)
    if rng.randrange(12) == 0:
        t = t.replace(sep, ':;'[rng.randrange(2)], 1)
    return t


def shard_parse(ctx, payload):
    n = payload
    rng = random.Random(derive_seed(ctx.seed, 'C06c', ctx.shard))
    for _ in range(n):
        t = gen_structured(rng)
        case = {'kind': 'parse', 'text': t}
        ctx.count()
        vs = examine_parse(case)
        if vs:
            ctx.violations(vs)
        if ':' in t or ';' in t:
            ctx.nontrivial(('c', t), dict(case, result=repr(call(athlib.parse_hms, t)[1])) if len(ctx.nt_keys) % 20000 == 7 else None)
    ctx.label('parse_hms-structured', n)


def examine(case):
    return {'round': examine_round, 'format': examine_format, 'parse': examine_parse, 'format-exact': examine_format_exact}[case['kind']](case)


def run(ctx):
    thorough = ctx.tier == 'thorough'
    ints = ['']
    for n in range(1, 5):
        ints += [''.join(p) for p in itertools.product(INT_DIGITS, repeat=n)]
    # (integer parts far longer than any time - 20 to 45 digits - keep the same exact meaning)
    rng0 = random.Random(derive_seed(ctx.seed, 'C06-long-ints'))
    for _ in range(12 if thorough else 4):
        n = rng0.randrange(20, 46)
        ints.append(rng0.choice('123456789') + ''.join(rng0.choice('0123456789') for _ in range(n - 1)))
    ints.append('9' * 30)
    run_shards(ctx, 'checks.c06', 'shard_round', [(i, thorough) for i in ints], disjoint=True)
    # (b') exact carriers of a duration: Decimal / Fraction, from ordinary times to values finer than any double at their size
    rngx = random.Random(derive_seed(ctx.seed, 'C06-exact'))
    for i in range(6000 if thorough else 1500):
        k = rngx.randrange(6)
        whole = rngx.randrange(0, 400000) if k < 3 else rngx.choice([59, 3599, 3600, 86399, 359999]) if k == 3 else \
            2 ** 53 + rngx.randrange(1, 10 ** 6) if k == 4 else rngx.randrange(10 ** 9, 10 ** 18)
        nd = rngx.randrange(0, 6)
        fr = ''.join(rngx.choice('0123456789') for _ in range(nd)) if k != 3 else '9' * nd
        case = {'kind': 'format-exact', 'value': '%d%s' % (whole, '.' + fr if fr else ''), 'prec': rngx.randrange(4)}
        ctx.count()
        ctx.label('format-exact-carriers')
        vs = examine_format_exact(case)
        if vs:
            ctx.violations(vs)
        if whole >= 2 ** 53 or k == 3:
            ctx.nontrivial(('bx', case['value'], case['prec']))
    # (b)
    rng = random.Random(derive_seed(ctx.seed, 'C06-boundaries'))
    allb = list(range(60, 360001, 60))
    if thorough:
        chosen = allb
        half = 100
    else:
        must = [60, 120, 180, 300, 3540, 3600, 3660, 7200, 35940, 36000, 86400, 359940, 360000]
        chosen = sorted(set(must + rng.sample(allb, 400)))
        half = 60
    bl = [(b, half) for b in chosen] + [(0, half)]
    shards = [bl[i::16] for i in range(16)]
    run_shards(ctx, 'checks.c06', 'shard_format',
               [(s, 60000 if thorough else 6000, 60000 if thorough else 6000) for s in shards], disjoint=False)
    run_shards(ctx, 'checks.c06', 'shard_parse', [200000 if thorough else 15000] * 16, disjoint=False)

    @hypothesis.seed(derive_seed(ctx.seed, 'C06-text'))
    @settings(max_examples=20000 if thorough else 2500, database=None, deadline=None,
              suppress_health_check=list(HealthCheck), phases=[Phase.generate])
    @given(st.one_of(st.text(max_size=12),
                     st.text(alphabet='0123456789:;. -+eE_infa٣', max_size=10),
                     st.from_regex(r'^\d{0,3}([:;]\d{0,3}){0,3}(\.\d{0,4})?$', fullmatch=True)))
    def t(text):
        ctx.count()
        ctx.label('parse_hms-arbitrary-text')
        vs = examine_parse({'kind': 'parse', 'text': text})
        if vs:
            ctx.violations(vs)
    t()
    # very long texts: thousands of fields, good and bad last field, both separators ("any text whatsoever")
    for n in (300, 1200, 3000, 20000):
        for text in ('0:' * n + '1.5', '0;' * n + 'x', '1:' * n + '2', ':' * n, '1' * n, '0:' * n + '1' * 400 + '.5'):
            ctx.count()
            ctx.label('parse_hms-very-long-text')
            vs = examine_parse({'kind': 'parse', 'text': text})
            if vs:
                ctx.violations(vs)
    nrng = random.Random(derive_seed(ctx.seed, 'C06-numbers'))
    for x in [0, 1, 59, 60, 61, 3599, 3600, 86400, 2 ** 53 + 1, 10 ** 30, 0.0, 0.5, 59.99, 60.0, 3670.1, 1e-9, 1e300] + \
            [nrng.randrange(0, 400000) for _ in range(200)] + [nrng.randrange(0, 40000000) / 100.0 for _ in range(200)]:
        ctx.count()
        ctx.label('parse_hms-number-carrier')
        vs = examine_parse({'kind': 'parse', 'number': x})
        if vs:
            ctx.violations(vs)
    for x in [0, 1, 59, 60, 3599, 3600, 86399, 0.001, 59.5, 59.999, 3599.2] + [nrng.randrange(0, 400000) for _ in range(100)] + \
            [nrng.randrange(0, 400000000) / 1000.0 for _ in range(100)]:
        ctx.count()
        ctx.label('default-precision')
        ctx.violations(examine_parse({'kind': 'parse', 'default_of': 'format', 'value': x}))
    for _ in range(200):
        x = '%d.%s' % (nrng.randrange(0, 1000), ''.join(nrng.choice('0123456789') for _ in range(nrng.randrange(0, 7))))
        ctx.count()
        ctx.label('default-precision')
        ctx.violations(examine_parse({'kind': 'parse', 'default_of': 'round', 'value': x}))
    if thorough:
        from vlib import fuzzrun
        fuzzrun.run_atheris(ctx, 'fuzz/c06_parse.py', seconds=90, seeds=[b'\x00\x051:2:3', b'\x02' + b'\x00' * 8, b''])
