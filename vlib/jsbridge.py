"""Persistent node process serving calls into the library's JS sources (see js/harness.js)."""
import json
import os
import shutil
import subprocess

from .harness import REPO, VERIF, HarnessError


class Node(object):
    def __init__(self):
        node = shutil.which('node')
        if not node:
            raise HarnessError('node is not installed')
        env = dict(os.environ)
        if os.environ.get('VERIF_AMBIENT') == '1':
            # the ambient pass: node under a locale with other digits and separators (ICU is built into node) and the same
            # far-away time zone - the ported functions print and parse plain ASCII figures whatever the locale
            env.update({'LC_ALL': 'ar_EG.UTF-8', 'LANG': 'ar_EG.UTF-8', 'TZ': 'Pacific/Kiritimati'})
        self.p = subprocess.Popen([node, os.path.join(VERIF, 'js', 'harness.js'), REPO], stdin=subprocess.PIPE, env=env,
                                  stdout=subprocess.PIPE, stderr=subprocess.PIPE, text=True, bufsize=1, encoding='utf-8')

    def batch(self, reqs):
        """reqs: [(fname, [args])] -> [('ret', value) | ('exc', message)]"""
        if not reqs:
            return []
        self.p.stdin.write(json.dumps([{'f': f, 'a': a} for f, a in reqs]) + '\n')
        self.p.stdin.flush()
        line = self.p.stdout.readline()
        if not line:
            raise HarnessError('node bridge died: ' + self.p.stderr.read()[-500:])
        out = []
        for r in json.loads(line):
            if 'e' in r:
                out.append(('exc', r['e']))
            else:
                v = r.get('r')
                if isinstance(v, dict) and set(v) == {'$'}:
                    v = ('special', v['$'])
                out.append(('ret', v))
        return out

    def call(self, f, *a):
        return self.batch([(f, list(a))])[0]

    def close(self):
        try:
            self.p.stdin.close()
            self.p.wait(timeout=5)
        except Exception:
            self.p.kill()
