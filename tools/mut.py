#!/venv/bin/python
"""Sensitivity protocol: run checks against hand-written mutants of athlib in a scratch copy.

  tools/mut.py [--tests] [--tier quick] [--only ID[,ID]] [--props C01,C09]

Mutants live in tools/mutants.py as dicts {id, props, file, old, new[, count]}.  Each is applied
to a fresh copy of /repo under /dev/shm (removed afterwards); nothing is written into /repo or
into /verif/evidence.  With --tests the baseline suite is run on the mutant too (it must pass).
"""
import argparse, os, shutil, subprocess, sys, tempfile, time


def run_check(cmd, env, limit=2400):
    """Run a check in its own process group; kill the whole group when it exceeds `limit` seconds (rc 124)."""
    import signal
    p = subprocess.Popen(cmd, env=env, stdout=subprocess.PIPE, stderr=subprocess.STDOUT, text=True, start_new_session=True)
    try:
        out, _ = p.communicate(timeout=limit)
        return p.returncode, out
    except subprocess.TimeoutExpired:
        os.killpg(p.pid, signal.SIGKILL)
        out, _ = p.communicate()
        return 124, (out or '') + '\nTIMEOUT after %d s' % limit

sys.path.insert(0, os.path.dirname(os.path.abspath(__file__)))
from mutants import MUTANTS
V = os.path.dirname(os.path.dirname(os.path.abspath(__file__)))

ap = argparse.ArgumentParser()
ap.add_argument('--tests', action='store_true'); ap.add_argument('--tier', default='quick')
ap.add_argument('--only'); ap.add_argument('--props'); ap.add_argument('--seed', default='1')
a = ap.parse_args()
only = set(a.only.split(',')) if a.only else None
props = set(a.props.split(',')) if a.props else None
rows = []
for m in MUTANTS:
    if only and m['id'] not in only: continue
    if props and not (props & set(m['props'])): continue
    root = tempfile.mkdtemp(prefix='athlib-mut-', dir='/dev/shm')
    try:
        repo = os.path.join(root, 'repo')
        shutil.copytree('/repo', repo, ignore=shutil.ignore_patterns('.git', 'node_modules', '__pycache__'))
        edits = m.get('edits') or [(m['file'], m['old'], m['new'])]
        for file, old, new in edits:
            path = os.path.join(repo, file)
            s = open(path).read()
            n = s.count(old)
            if n != m.get('count', 1):
                print('MUTANT %s: STALE - pattern occurs %d times in %s' % (m['id'], n, file)); raise LookupError(m['id'])
            open(path, 'w').write(s.replace(old, new))
        tests = ''
        if a.tests:
            r = subprocess.run([os.path.join(V, 'tools', 'baseline.py'), repo], stdout=subprocess.PIPE, text=True)
            tests = 'tests-pass' if r.returncode == 0 else 'TESTS-FAIL'
        for prop in m['props']:
            if props and prop not in props: continue
            env = dict(os.environ, VERIF_REPO=repo, VERIF_OUT=os.path.join(root, 'out'), VERIF_SEED=a.seed)
            t0 = time.time()
            rc_, out_ = run_check([os.path.join(V, 'check'), prop, '--tier', a.tier], env)
            import types
            r = types.SimpleNamespace(returncode=rc_, stdout=out_)
            sigs = [l.split('sig=')[1].split(' ')[0] for l in r.stdout.splitlines() if l.startswith('violation:')]
            verdict = {0: 'MISSED', 1: 'caught', 2: 'HARNESS-ERROR', 124: 'TIMEOUT'}.get(r.returncode, 'rc=%d' % r.returncode)
            rows.append((m['id'], prop, verdict, tests, '%.0fs' % (time.time() - t0), ';'.join(sigs)[:150]))
            print('%-28s %-4s %-14s %-10s %5s  %s' % rows[-1]); sys.stdout.flush()
            if r.returncode == 2: print(r.stdout[-1500:])
    except LookupError:
        rows.append((m['id'], '-', 'STALE', '', '', ''))
    finally:
        shutil.rmtree(root, ignore_errors=True)
missed = [r for r in rows if r[2] != 'caught']
print('%d mutant runs, %d not caught' % (len(rows), len(missed)))
