"""C10 — every valid event code can be sorted, measured and classified without error."""
import random
import re

import hypothesis
from hypothesis import given, settings, strategies as st, HealthCheck, Phase

import athlib
from athlib import codes
from vlib import codegen
from vlib.harness import V, derive_seed, run_shards
from vlib.lib import call, mod

PROPERTY = 'C10'
AMBIENT_PASS = True        # the same search once more under unusual ambient settings (vlib.run.AMBIENT_SETTINGS)
RULE = ('codes generated from the syntax tree of PAT_EVENT_CODE (all alternatives; bulk seeded + Hypothesis share + '
        'from_regex), pairs of codes drawn within a family for the ordering clauses, and lists of 0-12 dicts/objects with '
        'present / None / missing / duplicate disciplines for the sorter; oracle = totality of discipline_sort_key, '
        'text_discipline_sort_key, sort_by_discipline, get_distance, get_duration_event_time, unit_name (all codes) and '
        'event_code_to_kind (track/road/jump/throw codes), key shape, class order by family, distance order inside '
        'track/hurdles/relays, conventional field order, text key order-isomorphic to tuple key, sorter = stable sort '
        'permutation, relay distance = legs x leg distance; non-trivial = an accepted code outside the ~30 codes of the unit '
        'tests that is not a bare number (named track codes, relays with suffixed legs, custom events, weight-specific '
        'throws, hurdle specs ...); distinct codes')
RULE = RULE + "; the family of a code is read from its shape by the check's own patterns (independent of the library's family patterns); relay legs with any unit suffix as the caller writes it"
ASSUMPTIONS = ['only comparisons whose expected direction is unambiguous are asserted (same suffix, same number of legs; bare '
               'SC/SH/LH/nMT only for totality)',
               'event_code_to_kind is only required to be total on the four families it names; elsewhere it may raise ValueError']
RULE = RULE + '; codes also with the trailing newline the pattern admits and with non-ASCII decimal digits'

TEST_CODES = set('100 200 400 800 1500 5000 10000 110H 100H 400H 3000SC 4x100 4x400 HJ PV LJ TJ SP DT HT JT MAR HM XC MILE '
                 '5K 5M 440Y 3000W 3KW T26 4xRELAY 4xDMR 4xSMR 4xSWR 6x5000 6x5K 6x3M DEC HEP PEN'.split())
FIELD8 = ['HJ', 'PV', 'LJ', 'TJ', 'SP', 'DT', 'HT', 'JT']
_FIELD_PREFIX = re.compile(r'^(HJ|PV|LJ|TJ|SP|DT|HT|JT)')
_PLAIN = re.compile(r'^(\d+)\s*([yYwW]?)$')
_RELAY = re.compile(r'^(\d{1,2})[xX](\d+)([A-Za-z]{0,2})$')       # any unit suffix the relay pattern may come to admit, as the caller writes it
_HURD = re.compile(r'^(\d{2,4})(?!\d)')


# The family of an accepted code by its SHAPE - the check's own reading of the vocabulary (it agrees with the library's
# family patterns on every generated code of the unchanged tree), so that a family pattern which stops recognising some of
# its codes does not move the expectation along with it.
OWN_THROW = re.compile(r'^(?:S?DT|S?JT|[HC]T|S?SP|WT|SWT|S?BT|ST|GDT|OT|TART|CHT|OHT|[HL][1-9])(?![A-Za-z])', re.I)
OWN_HURD = re.compile(r'^\d{2,4}(?:[LS]?H|SC)(?![A-Za-z])', re.I)
OWN_JUMP = re.compile(r'^(?:S?HJ|S?LJ|S?TJ|PV)$', re.I)
OWN_RELAY = re.compile(r'^\d{1,2}X', re.I)
OWN_TRACK = re.compile(r'^(?:(?:\d+|\d?MILE)\s*(?:[lLsS]?[hH]\s*(?:\d[\d.\scm]*)?|[sS][cC]|[yY]|[wW])?|[sS][cC]|[2345][mM][tT]|[lL][hH]|[sS][hH])$', re.S)


def own_class(s):
    if OWN_THROW.match(s):
        return 4
    if OWN_HURD.match(s):
        return 2
    if OWN_JUMP.match(s):
        return 3
    if OWN_RELAY.match(s):
        return 5
    if OWN_TRACK.match(s):
        return 1
    return 6


def lib_class(s):
    if codes.PAT_THROWS.match(s):
        return 4
    if codes.PAT_HURDLES.match(s):
        return 2
    if codes.PAT_JUMPS.match(s):
        return 3
    if codes.PAT_RELAYS.match(s):
        return 5
    if codes.PAT_TRACK.match(s):
        return 1
    return 6


def expected_class(s):
    return own_class(s)


def shape_tag(s):
    """Coarse shape of a code, used in signatures so one root cause gives one signature."""
    if codes.PAT_RELAYS.match(s):
        m = codes.PAT_RELAYS.match(s)
        leg = m.group(2)
        return 'relay-' + ('numeric' if leg.isdigit() else 'decimal' if re.match(r'^[\d.]+$', leg)
                           else 'suffixed' if leg[0].isdigit() else 'named')
    if codes.PAT_THROWS.match(s):
        if re.match(r'^[HhLl][1-9]$', s):
            return 'custom-HL'
        return 'throw-%d-letter' % len(re.match(r'^[A-Za-z]*', s).group(0))
    if codes.PAT_HURDLES.match(s):
        return 'hurdles'
    if codes.PAT_JUMPS.match(s):
        return 'jump'
    if codes.PAT_TRACK.match(s):
        return 'track-numeric' if codes.PAT_TRACK.match(s).group('meters') else 'track-named'
    return 'other'


def examine_code(s):
    out = []
    case = {'kind': 'code', 's': s}
    tag = shape_tag(s)
    k = call(athlib.discipline_sort_key, s)
    if k[0] == 'exc':
        out.append(V('total', ['sort-key-raises', k[1], tag], case, k))
    else:
        key = k[1]
        ok = (isinstance(key, tuple) and len(key) == 3 and isinstance(key[0], int) and isinstance(key[1], int)
              and isinstance(key[2], str) and not isinstance(key[0], bool))
        if not ok:
            out.append(V('key-shape', ['key-shape', tag], case, key, '(int, int, str)'))
        else:
            want = expected_class(s)
            if key[0] != want:
                out.append(V('class-order', ['class', tag, 'got-%s' % key[0]], case, key, want))
            t = call(athlib.text_discipline_sort_key, s)
            if t[0] == 'exc' or not isinstance(t[1], str):
                out.append(V('total', ['text-key-raises', t[1] if t[0] == 'exc' else 'type', tag], case, t))
    for name, f in (('get_distance', athlib.get_distance),
                    ('get_duration_event_time', mod('utils').get_duration_event_time),
                    ('unit_name', mod('athlon_score').unit_name)):
        r = call(f, s)
        if r[0] == 'exc':
            out.append(V('total', [name + '-raises', r[1], tag], case, r))
        elif name == 'get_distance' and not (r[1] is None or (isinstance(r[1], int) and not isinstance(r[1], bool))):
            out.append(V('total', ['get_distance-type', type(r[1]).__name__, tag], case, r))
    four = any(p.match(s) for p in (codes.PAT_THROWS, codes.PAT_JUMPS, codes.PAT_TRACK, codes.PAT_ROAD))
    r = call(athlib.AgeGrader.event_code_to_kind, s)
    if four and r[0] == 'exc':
        out.append(V('total', ['event_code_to_kind-raises', r[1], tag], case, r))
    if not four and r[0] == 'exc' and r[1] != 'ValueError':
        out.append(V('total', ['event_code_to_kind-raises', r[1], tag], case, r))
    # relay with numeric legs: legs x leg distance
    m = _RELAY.match(s)
    if m:
        legs = int(m.group(1))
        leg = call(athlib.get_distance, m.group(2) + m.group(3))
        whole = call(athlib.get_distance, s)
        if leg[0] == 'ret' and leg[1] is not None and leg[1] < 10 ** 12 and whole != ('ret', legs * leg[1]):
            out.append(V('relay-distance', ['relay-distance', shape_tag(s)], case, whole, legs * leg[1]))
        plain = int(m.group(2))
        # distances go through float: exact only below 2**53, so absurdly long digit runs are not asserted
        if not m.group(3) and plain < 10 ** 12 and whole != ('ret', legs * plain):
            out.append(V('relay-distance', ['relay-distance', 'plain'], case, whole, legs * plain))
    return out


_MILE = re.compile(r'^(\d?)MILE\s*([yYwW]?)$')


def track_metres(code):
    """(metres, lower-case suffix) of a plain-metre or mile track code, else None.  A mile is 1609 m."""
    m = _PLAIN.match(code)
    if m:
        return int(m.group(1)), m.group(2).lower()
    m = _MILE.match(code)
    if m:
        return 1609 * int(m.group(1) or 1), m.group(2).lower()
    return None


def order_expectation(a, b):
    """-1 / +1 when the property fixes the order of two codes' keys, else None; plus the clause name."""
    ca, cb = expected_class(a), expected_class(b)
    if ca != cb:
        return (-1 if ca < cb else 1), 'class-order'
    if ca == 1:
        ta, tb = track_metres(a), track_metres(b)
        if ta and tb and ta[1] == tb[1] and ta[0] != tb[0]:
            return (-1 if ta[0] < tb[0] else 1), 'track-by-distance'
    if ca == 2:
        ma, mb = _HURD.match(a), _HURD.match(b)
        if ma and mb and int(ma.group(1)) != int(mb.group(1)):
            return (-1 if int(ma.group(1)) < int(mb.group(1)) else 1), 'hurdles-by-distance'
    if ca == 5:
        ma, mb = _RELAY.match(a), _RELAY.match(b)
        if ma and mb and int(ma.group(1)) == int(mb.group(1)) and ma.group(3) == mb.group(3) \
                and int(ma.group(2)) != int(mb.group(2)):
            return (-1 if int(ma.group(2)) < int(mb.group(2)) else 1), 'relays-by-leg-distance'
    if ca in (3, 4):
        fa, fb = _FIELD_PREFIX.match(a.upper()), _FIELD_PREFIX.match(b.upper())
        if fa and fb and fa.group(1) != fb.group(1):
            ia, ib = FIELD8.index(fa.group(1)), FIELD8.index(fb.group(1))
            return (-1 if ia < ib else 1), 'field-order'
    return None, None


def examine_pair(a, b):
    out = []
    case = {'kind': 'pair', 'a': a, 'b': b}
    ka, kb = call(athlib.discipline_sort_key, a), call(athlib.discipline_sort_key, b)
    if ka[0] != 'ret' or kb[0] != 'ret':
        return out      # totality is reported by examine_code
    ka, kb = ka[1], kb[1]
    try:
        cmp_t = (ka > kb) - (ka < kb)
    except TypeError:
        return out
    want, clause = order_expectation(a, b)
    if want is not None and cmp_t != want:
        out.append(V(clause, ['order', clause, shape_tag(a)], case, [ka, kb], 'a before b' if want < 0 else 'b before a'))
    if all(isinstance(k[1], int) and 0 <= k[1] < 100000 for k in (ka, kb)):
        ta, tb = call(athlib.text_discipline_sort_key, a), call(athlib.text_discipline_sort_key, b)
        if ta[0] == 'ret' and tb[0] == 'ret':
            cmp_s = (ta[1] > tb[1]) - (ta[1] < tb[1])
            if cmp_s != cmp_t:
                out.append(V('text-key-isomorphic', ['text-key-order'], case, [ta[1], tb[1]], [ka, kb]))
    return out


class Obj(object):
    def __init__(self, ident, **kw):
        self.ident = ident
        self.__dict__.update(kw)


def examine_list(items, attr='discipline'):
    """items: list of [form, discipline] with form in dict / obj / dict-missing / obj-missing."""
    stuff = []
    for i, (form, d) in enumerate(items):
        if form == 'dict':
            stuff.append({'id': i, attr: d})
        elif form == 'dict-missing':
            stuff.append({'id': i})
        elif form == 'obj':
            stuff.append(Obj(i, **{attr: d}))
        else:
            stuff.append(Obj(i))
    case = {'kind': 'list', 'items': items, 'attr': attr}
    keys = []
    for form, d in items:
        k = call(athlib.discipline_sort_key, d if form in ('dict', 'obj') else None)
        if k[0] != 'ret':
            return []     # reported by examine_code
        keys.append(k[1])
    r = call(athlib.sort_by_discipline, list(stuff), attr) if attr != 'discipline' else call(athlib.sort_by_discipline, list(stuff))
    if r[0] == 'exc':
        return [V('total', ['sorter-raises', r[1]], case, r)]
    got = r[1]
    ident = lambda t: t['id'] if isinstance(t, dict) else t.ident
    try:
        want = [stuff[i] for i in sorted(range(len(stuff)), key=lambda i: keys[i])]
    except TypeError:
        return []
    if [ident(t) for t in got] != [ident(t) for t in want] or any(x is not y for x, y in zip(got, want)):
        kindv = 'not-permutation' if sorted(ident(t) for t in got) != list(range(len(stuff))) else 'order-or-stability'
        return [V('sorter', ['sorter', kindv], case, [ident(t) for t in got], [ident(t) for t in want])]
    return []


def examine(case):
    if case['kind'] == 'code':
        return examine_code(case['s'])
    if case['kind'] == 'pair':
        return examine_pair(case['a'], case['b'])
    return examine_list(case['items'], case.get('attr', 'discipline'))


def shrink(bucket):
    case = bucket['case']
    sig = bucket['sig']
    if case.get('kind') != 'code':
        return None

    def fails(t):
        return bool(codes.PAT_EVENT_CODE.match(t)) and any(v['sig'] == sig for v in examine_code(t))
    t = codegen.ddmin_string(case['s'], fails)
    if t != case['s']:
        v = [v for v in examine_code(t) if v['sig'] == sig][0]
        return {'case': v['case'], 'observed': v['observed']}
    return None


FAMILY_PATS = ['PAT_TRACK', 'PAT_HURDLES', 'PAT_RELAYS', 'PAT_THROWS', 'PAT_JUMPS', 'PAT_ROAD', 'PAT_EVENT_CODE']
SIMPLE = ['100', '200', '400', '800', '1500', '3000', '5000', '10000', '60', '150', '300', '100y', '440y', '3000W', '5000w',
          '60H', '80H', '100H', '110H', '400H', '300H', '2000SC', '3000SC', '1500sc', '75H76.2cm7.5m',
          '4x100', '4x400', '4x200', '4x800', '4x1500', '3x800', '4x100H', '4x5K', '4x1M', '12x200H',
          'HJ', 'PV', 'LJ', 'TJ', 'SP', 'DT', 'HT', 'JT', 'SP4K', 'SP7.26K', 'DT1.5K', 'HT4K', 'JT600', 'JT800', 'SHJ',
          'SLJ', 'STJ', 'WT', 'OT', 'BT', 'MAR', '5K', '10K', 'XC', 'DEC', 'HEP', 'T30', '24HR', 'H1', 'L3', 'SPB', 'BAL',
          'MILE', '2MILE', 'MILEW', '2MILEW', 'MILEy', '3MILE', '1609', '3218W', 'SC', 'SH', 'LH', '2MT', 'TART', 'CHT', 'OHT', 'SWT', 'GDT', 'SSP', 'SDT', 'SJT', 'SBT', 'CT']


def nontrivial(s):
    return bool(codes.PAT_EVENT_CODE.match(s)) and s not in TEST_CODES and not s.isdigit()


def shard(ctx, payload):
    ncodes, npairs, nlists = payload
    rng = random.Random(derive_seed(ctx.seed, 'C10', ctx.shard))
    gens = {n: codegen.Gen(getattr(codes, n), n) for n in FAMILY_PATS}
    g = gens['PAT_EVENT_CODE']

    def code(fam=None):
        k = rng.randrange(10)
        if k == 0:
            return rng.choice(SIMPLE)
        return (gens[fam] if fam else g).generate(rng.randrange, long_digits=(rng.randrange(12) == 0))

    for i in range(ncodes):
        s = code()
        if i % 6 == 0 and codes.PAT_EVENT_CODE.match(s + '\n'):
            s = s + '\n'          # `$` admits one trailing newline (a line read from a file): still a valid code
            ctx.label('code-with-trailing-newline')
        elif i % 9 == 1:
            t = codegen.lookalikes(s, rng.randrange)
            if codes.PAT_EVENT_CODE.match(t):      # `\d` admits every Unicode decimal digit: those spellings are codes too
                s = t
                ctx.label('code-with-non-ascii-digits')
        ctx.count()
        ctx.violations(examine_code(s))
        ctx.label('code-' + shape_tag(s).split('-')[0])
        if nontrivial(s):
            ctx.nontrivial(s, {'kind': 'code', 's': s, 'key': repr(call(athlib.discipline_sort_key, s)[1])}
                           if len(ctx.nt_keys) % 2500 == 13 else None)
    for i in range(npairs):
        fam = rng.choice(FAMILY_PATS[:5]) if i % 3 else None
        a, b = code(fam), code(fam if i % 2 else None)
        if i % 4 == 0:      # close pairs: same code with a different number
            a = rng.choice(SIMPLE)
            b = re.sub(r'\d+', lambda m: str(max(10, int(m.group(0)) + rng.choice([-50, 50, 100, 300]))), a, count=1)
            if not codes.PAT_EVENT_CODE.match(b):
                b = rng.choice(SIMPLE)
        ctx.count()
        vs = examine_pair(a, b)
        ctx.violations(vs)
        w, clause = order_expectation(a, b)
        ctx.label('pair-' + (clause or 'text-key-only'))
        if nontrivial(a) or nontrivial(b):
            ctx.nontrivial(('pair', a, b))
    # numbers beyond what a double holds exactly (17-20 digits, with and without a leading zero) and of hundreds of digits:
    # codes all the same (the pattern says \d+), ordered by the number, and every helper returns
    big = [2 ** 53, 2 ** 53 + 1, 2 ** 53 + 2, 10 ** 17 - 1, 10 ** 17, 10 ** 17 + 1, 123456789012345678901]
    for i in range(len(big)):
        for j in range(len(big)):
            if i != j:
                for sfx, pad in (('', ''), ('', '0'), ('H', ''), ('W', '0')):
                    a, b = pad + str(big[i]) + sfx, str(big[j]) + sfx
                    ctx.count()
                    ctx.violations(examine_pair(a, b))
                    ctx.label('pair-beyond-double-precision')
                    ctx.nontrivial(('pair', a, b))
    for nd in (310, 400, 1200):
        for shape in ('%s', '%sH', '4x%s', '4x%sK', '12x%sH', '%sW', '0%s'):
            s_ = shape % ('9' * nd)
            if codes.PAT_EVENT_CODE.match(s_):
                ctx.count()
                ctx.violations(examine_code(s_))
                ctx.label('code-of-hundreds-of-digits')
    LONG = ['100000', '20000', '30000', '200000', '50000', '1000000', '99999', '100001', '250000W', '30000W', '42195',
            '4x100000', '4x20000', '1500', '10000', '123456H', '2000H', '400H']
    for i in range(nlists):
        n = rng.randrange(0, 13)
        items = []
        pool = [code() for _ in range(max(1, n // 2))]
        if i % 4 == 0:          # distances of 100 km and more next to shorter ones: the sorter follows the TUPLE key
            pool = rng.sample(LONG, min(len(LONG), max(2, n // 2 + 1)))
        for _ in range(n):
            form = rng.choice(['dict', 'dict', 'obj', 'obj', 'dict-missing', 'obj-missing'])
            d = rng.choice(pool + [None, ''])
            items.append([form, d])
        ctx.count()
        ctx.label('list')
        ctx.violations(examine_list(items, rng.choice(['discipline', 'discipline', 'e'])))
        if n >= 4 and len(set(map(repr, items))) < n:
            ctx.nontrivial(('list', repr(items)))
    c, t = g.coverage()
    ctx.extra['alternative_coverage_per_shard'] = {'shard%02d' % ctx.shard: '%d/%d' % (c, t)}


def run_hypothesis(ctx, n):
    g = codegen.Gen(codes.PAT_EVENT_CODE, 'PAT_EVENT_CODE')

    @hypothesis.seed(derive_seed(ctx.seed, 'C10-hyp'))
    @settings(max_examples=n, database=None, deadline=None, suppress_health_check=list(HealthCheck),
              phases=[Phase.generate])
    @given(st.data())
    def t(data):
        draw = codegen.hyp_draw(data)
        a = g.generate(draw)
        b = g.generate(draw)
        ctx.count(3)
        ctx.label('hypothesis-pair')
        ctx.violations(examine_code(a))
        ctx.violations(examine_code(b))
        ctx.violations(examine_pair(a, b))
        for s in (a, b):
            if nontrivial(s):
                ctx.nontrivial(s)
    t()

    @hypothesis.seed(derive_seed(ctx.seed, 'C10-from_regex'))
    @settings(max_examples=n, database=None, deadline=None, suppress_health_check=list(HealthCheck),
              phases=[Phase.generate])
    @given(st.from_regex(codes.PAT_EVENT_CODE, fullmatch=True))
    def t2(s):
        ctx.count()
        ctx.label('from_regex')
        ctx.violations(examine_code(s))
        if nontrivial(s):
            ctx.nontrivial(s)
    t2()


def run(ctx):
    thorough = ctx.tier == 'thorough'
    per = (40000, 15000, 3000) if thorough else (2500, 1000, 200)
    for s in SIMPLE:
        ctx.count()
        ctx.violations(examine_code(s))
    for a in SIMPLE:
        for b in SIMPLE:
            ctx.count()
            ctx.violations(examine_pair(a, b))
    ctx.label('simple-code-pairs', len(SIMPLE) ** 2)
    run_shards(ctx, 'checks.c10', 'shard', [per] * 16, disjoint=False)
    run_hypothesis(ctx, 3000 if thorough else 400)
