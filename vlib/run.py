"""CLI:  python -m vlib.run Cnn --tier quick|thorough [--replay FILE]

exit 0  property held on everything explored (KNOWN-FINDING lines possible)
exit 1  a violation not listed in known_findings.json (VIOLATION lines)
exit 2  harness error (never a violation)
"""
import argparse
import importlib
import json
import os
import sys
import time
import traceback

from . import harness
from .harness import Ctx, HarnessError, VERIF, REPO, sig_hash


def _check_tree():
    import athlib
    path = os.path.realpath(os.path.dirname(athlib.__file__))
    want = os.path.realpath(os.path.join(REPO, 'athlib'))
    if path != want:
        raise HarnessError('athlib imported from %s, expected %s' % (path, want))


def _load(prop):
    return importlib.import_module('checks.' + prop.lower())


def _write_replay(prop, bucket, regress=False):
    d = os.path.join(harness.OUT, 'replays')
    os.makedirs(d, exist_ok=True)
    h = sig_hash(bucket['sig'])
    path = os.path.join(d, '%s-%s.json' % (prop, h))
    doc = {'property': prop, 'clause': bucket['clause'], 'signature': bucket['sig'],
           'case': bucket['case'], 'observed': bucket.get('observed'),
           'expected': bucket.get('expected'), 'count_in_run': bucket.get('count', 1)}
    with open(path, 'w') as f:
        json.dump(doc, f, indent=1, sort_keys=True, default=repr)
        f.write('\n')
    return os.path.relpath(path, VERIF) if harness.OUT == VERIF else path


def do_replay(prop, path):
    mod = _load(prop)
    with open(path) as f:
        doc = json.load(f)
    case = doc['case'] if 'case' in doc else doc
    vs = mod.examine(case)
    want = doc.get('signature')
    hit = [v for v in vs if want is None or v['sig'] == want] or vs
    if hit:
        for v in hit[:5]:
            print('replay: clause=%s sig=%s observed=%r expected=%r' % (
                v['clause'], '/'.join(v['sig']), v.get('observed'), v.get('expected')))
        print('VIOLATION property=%s replay=%s' % (prop, path))
        return 1
    print('replay: no violation for %s' % path)
    return 0


def do_run(prop, tier, seed):
    t0 = time.time()
    mod = _load(prop)
    ctx = Ctx(prop, tier, seed)
    open_known, fixed_known = harness.load_known(prop)
    open_sigs = {sig_hash(e['signature']): e for e in open_known}

    # 1. known findings: re-execute the stored example of each open entry
    for e in open_known:
        vs = mod.examine(e['example'])
        ctx.count()
        if any(v['sig'] == [str(s) for s in e['signature']] for v in vs):
            print('KNOWN-FINDING: property=%s %s' % (prop, e['what']))
        else:
            print('NOTE: known finding no longer reproduces (stale entry): %s' % e['what'])
        for v in vs:
            ctx.violation(v)

    # 2. regress replays (one minimal input per defect ever found, fixed ones included)
    nreg = 0
    for path in harness.regress_files(prop):
        with open(path) as f:
            doc = json.load(f)
        cases = doc['cases'] if 'cases' in doc else [doc['case']]
        for case in cases:
            nreg += 1
            ctx.count()
            for v in mod.examine(case):
                v = dict(v)
                v['regress_file'] = os.path.relpath(path, VERIF)
                ctx.violation(v)
    ctx.extra['regress_cases_replayed'] = nreg

    # 3. the generated search
    mod.run(ctx)

    # 4. classify
    nviol = 0
    lines = []
    for h, b in sorted(ctx.buckets.items()):
        if h in open_sigs:
            ctx.excluded_known['/'.join(b['sig'])] += b['count']
            continue
        nviol += 1
        shrink = getattr(mod, 'shrink', None)
        if shrink is not None:
            try:
                small = shrink(b)
                if small is not None:
                    b = dict(b, **small)
            except Exception:
                ctx.note('shrink failed for %s: %s' % ('/'.join(b['sig']),
                                                       traceback.format_exc(limit=1)))
        path = _write_replay(prop, b)
        print('violation: clause=%s sig=%s count=%d observed=%r expected=%r case=%s' % (
            b['clause'], '/'.join(b['sig']), b['count'], b.get('observed'), b.get('expected'),
            json.dumps(b['case'], default=repr)[:400]))
        lines.append('VIOLATION property=%s replay=%s' % (prop, path))
    ctx.extra['violation_signatures'] = [
        '/'.join(b['sig']) for h, b in sorted(ctx.buckets.items()) if h not in open_sigs]

    ev = harness.write_evidence(ctx, mod.RULE, time.time() - t0, nviol,
                                assumptions=getattr(mod, 'ASSUMPTIONS', []))
    print('%s %s seed=%d: evaluations=%d distinct_nontrivial=%d excluded_known=%d '
          'violations=%d wall=%.1fs' % (prop, tier, ctx.seed, ctx.evaluations,
                                        ctx.distinct_nontrivial,
                                        sum(ctx.excluded_known.values()), nviol,
                                        time.time() - t0))
    for l in lines:
        print(l)
    if ctx.evaluations < 1 or ctx.distinct_nontrivial < 2:
        raise HarnessError('vacuous run: evaluations=%d distinct_nontrivial=%d' % (
            ctx.evaluations, ctx.distinct_nontrivial))
    return 1 if nviol else 0


def _budget_watchdog(seconds):
    """A run that exceeds its wall-clock budget (a generated case or a shard that never returns) ends as INCONCLUSIVE
    with exit 2 - a time budget is never a verdict - instead of hanging for ever."""
    import threading

    def expire():
        import multiprocessing
        print('HARNESS-ERROR: INCONCLUSIVE - wall-clock budget of %d s exceeded (a case or shard did not return); no verdict'
              % seconds)
        sys.stdout.flush()
        for c in multiprocessing.active_children():
            try:
                c.kill()
            except Exception:
                pass
        os._exit(2)
    t = threading.Timer(seconds, expire)
    t.daemon = True
    t.start()


def main(argv=None):
    ap = argparse.ArgumentParser()
    ap.add_argument('prop')
    ap.add_argument('--tier', default=os.environ.get('VERIF_TIER', 'quick'),
                    choices=['quick', 'thorough'])
    ap.add_argument('--replay')
    ap.add_argument('--seed', type=int, default=None)
    a = ap.parse_args(argv)
    prop = a.prop.upper()
    seed = a.seed if a.seed is not None else int(os.environ.get('VERIF_SEED', '1') or 1)
    _budget_watchdog(int(os.environ.get('VERIF_BUDGET_S', '0') or 0) or (4 * 3600 if a.tier == 'thorough' else 2700))
    try:
        _check_tree()
        if a.replay:
            return do_replay(prop, a.replay)
        return do_run(prop, a.tier, seed)
    except HarnessError as e:
        print('HARNESS-ERROR: %s' % e)
        return 2
    except SystemExit:
        raise
    except BaseException:
        traceback.print_exc()
        print('HARNESS-ERROR: unexpected exception in the machinery')
        return 2


if __name__ == '__main__':
    sys.stdout.reconfigure(line_buffering=True)
    sys.exit(main())
