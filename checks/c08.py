"""C08 — high jump: replaying the log or the card, in any jumping order, rebuilds the competition."""
import itertools
import random
from decimal import Decimal

import hypothesis
from hypothesis import given, settings, strategies as st, HealthCheck, Phase

from athlib import HighJumpCompetition
from vlib import hjimpl, hjmodel, hjsearch, hjplay
from vlib.harness import V, derive_seed, run_shards
from vlib.lib import call as safe_call

PROPERTY = 'C08'
AMBIENT_PASS = 'quick'       # the same search once more under unusual ambient settings (vlib.run.AMBIENT_SETTINGS)
RULE = ('competition prefixes: every k-th distinct state of a breadth-first enumeration of all call sequences (n=2 depth 8/9, '
        'n=3 depth 6/7) and the end and two drawn mid-points of card-driven plays of complete competitions (1-4 athletes, up '
        'to 4 regular + 3 jump-off heights, refused calls interspersed); for each prefix: (1) from_actions replay of the '
        'recorded log, (2) to_matrix export -> from_matrix import, (3) per-height interleavings of the accepted trials that '
        'keep each athlete\'s own order - all of them when <= 120, else 30 drawn; oracle = observable snapshot equality '
        '(state, heights, cards, bests, places, trials) / card equality modulo pass marks / every interleaving accepted '
        'call-by-call with the same outcome; non-trivial = a prefix with >= 2 athletes having >= 2 trials each at one height, '
        'or containing a jump-off; distinct by (cards, heights)')
RULE = RULE + '; one prefix in three enters athletes with the optional start-list keywords (names, team, category, order, guest flag); the card is exported with the plain, the default and the start-list columns and imported also with verbose=True'
ASSUMPTIONS = ['all three clauses are judged for prefixes inside the territory the rules speak about (no pass inside a jump-off, '
               'bar not moved before everybody jumped, at least one clearance); beyond it (plays continued for 30 arbitrary '
               'calls) places are undefined and the unchanged library ranks a re-imported card differently, so only the log '
               'replay (in full) and the card round trip on state, heights, cards and bests are judged there',
               'the order of athletes with equal places in ranked_jumpers is deliberately not observed']
RULE = RULE + '; the replica carried on (bar, trials, late entry) leaves the original as it was' + "; plays that leave the model's territory are continued for 30 calls and judged on the log replay (in full) and on state / heights / cards / bests of the card round trip"


def _h(h):
    """A height as the centimetre figure it denotes (a float 2.1, a Decimal('2.10') and the card text '2.10' are the same bar)."""
    try:
        return '%.2f' % round(float(h), 2)
    except Exception:
        return str(h)


def snap(c, with_trials=True):
    js = sorted(c.jumpers, key=lambda j: str(j.bib))
    s = {
        'state': c.state,
        'heights': [_h(h) for h in c.heights],
        # raw cards: a trailing empty cell is a difference the log replay must reproduce too (only the card
        # round trip, which drops pass marks, strips them - see no_pass)
        # bibs as text: a card is text, so a number bib comes back from an import as its digits
        'cards': {str(j.bib): list(j.attempts_by_height) for j in js},
        'bests': {str(j.bib): _h(j.highest_cleared) for j in js},
        'places': {str(j.bib): j.place for j in js},
    }
    if with_trials:
        s['trials'] = [[str(t[0]), _h(t[1]), t[2]] for t in c.trials]
    return s


def no_pass(s):
    """Snapshot with explicit pass marks and trailing empty cells removed (what a card import can reproduce)."""
    t = dict(s)
    t['cards'] = {b: list(hjimpl.strip([cell.replace('-', '') for cell in card])) for b, card in s['cards'].items()}
    t.pop('trials', None)
    return t


def diff(a, b):
    return [k for k in a if a.get(k) != b.get(k)]


def build(case, observe=False):
    """Rebuild the competition of a case by plain calls; refused calls are part of the history and stay refused.  observe:
    the card, the trial list and the standings are READ after every call (an official looking at the sheet)."""
    c = hjimpl.new_comp()
    intb = any(isinstance(b, int) for b in case.get('bibs', ()))
    for raw in case['calls']:
        hjimpl.apply(c, hjsearch.dec(raw, intb), bool(case.get('float_heights')))
        if observe:
            try:
                c.to_matrix(); c.to_matrix(['bib']); list(c.trials); c.remaining; c.eliminated
                [(j.place, j.ranking_key) for j in c.jumpers]
            except Exception:
                pass
    return c


def groups_of(c):
    """Accepted calls grouped per bar position: [(height, [(op, bib), ...]), ...] (adds first)."""
    adds, groups = [], []
    for a, v in c.actions:
        if a == 'add_jumper':
            adds.append(v)
        elif a == 'set_bar_height':
            groups.append((v, []))
        else:
            groups[-1][1].append((a, v))
    return adds, groups


def interleavings(trials, limit, draw):
    """Orders of `trials` that keep each athlete's own sequence.  All of them if <= limit, else 30 drawn."""
    queues = {}
    for op, b in trials:
        queues.setdefault(b, []).append((op, b))
    bibs = sorted(queues, key=str)
    lens = [len(queues[b]) for b in bibs]
    # multinomial count
    total = 1
    n = 0
    for l in lens:
        for i in range(1, l + 1):
            n += 1
            total = total * n // i
    if total <= limit:
        out = []
        slots = [b for b in bibs for _ in queues[b]]
        for perm in set(itertools.permutations(slots)):
            pos = {b: 0 for b in bibs}
            seq = []
            for b in perm:
                seq.append(queues[b][pos[b]])
                pos[b] += 1
            out.append(seq)
        return sorted(out), total, True
    out = []
    for _ in range(30):
        pos = {b: 0 for b in bibs}
        seq = []
        remaining = [b for b in bibs for _ in queues[b]]
        while remaining:
            b = remaining.pop(draw(len(remaining)))
            seq.append(queues[b][pos[b]])
            pos[b] += 1
        out.append(seq)
    return out, total, False


def examine(case, draw=None, stats=None):
    out = []
    c = build(case)
    base = snap(c)
    # (0) the trial list derived from the log spells out the cards
    for b, card in base['cards'].items():
        letters = ''.join(t[2] for t in base['trials'] if t[0] == b)
        if letters != ''.join(card):
            out.append(V('trials-match-cards', ['trials-differ-from-cards'], case, {'bib': b, 'trials': letters, 'card': card}))
            break
    # (0b) reading the sheet while the competition runs changes nothing: the same calls with the card / trial list /
    # standings read after every call end in the same competition
    so = snap(build(case, observe=True))
    if so != base:
        out.append(V('log-replay', ['reads-change-the-competition'] + diff(base, so)[:2], case, {k: [base[k], so[k]] for k in diff(base, so)}))
    # (1) log replay
    r = safe_call(c.from_actions)
    if r[0] == 'exc':
        out.append(V('log-replay', ['log-replay-raises', r[1]], case, r[:3]))
    else:
        s1 = snap(r[1])
        if s1 != base:
            out.append(V('log-replay', ['log-replay-differs'] + diff(base, s1)[:2], case,
                         {k: [base[k], s1[k]] for k in diff(base, s1)}))
        # the replica is a competition of its own: carried on (another bar, further trials, a late entry - whatever it
        # accepts), it leaves the original, its log and its trial list as they were
        from decimal import Decimal as _D
        rep = r[1]
        try:
            top = max([_D(str(h)) for h in rep.heights] or [_D('1.00')]) + _D('0.01')
        except Exception:
            top = _D('9.00')
        hjimpl.apply(rep, ('add', 'ZZ9'))
        hjimpl.apply(rep, ('bar', top))
        for j_ in list(rep.jumpers)[:4]:
            hjimpl.apply(rep, ('failed', j_.bib))
            hjimpl.apply(rep, ('cleared', j_.bib))
        s2 = snap(c)
        if s2 != base:
            out.append(V('log-replay', ['replica-carried-on-changes-the-original'] + diff(base, s2)[:2], case,
                         {k: [base[k], s2[k]] for k in diff(base, s2)}))
            return out                # the original is no longer the competition that was played: nothing below applies
    # the same log handed over in other containers (a tuple, a one-shot iterator, a generator): the same competition
    for label, mk in (('tuple', lambda: tuple(c.actions)), ('iterator', lambda: iter(list(c.actions))),
                      ('generator', lambda: (a for a in list(c.actions)))):
        r_ = safe_call(c.from_actions, mk())
        if r_[0] == 'exc':
            out.append(V('log-replay', ['log-replay-raises', r_[1], 'log-as-' + label], case, r_[:3]))
            break
        if snap(r_[1]) != base:
            out.append(V('log-replay', ['log-replay-differs', 'log-as-' + label] + diff(base, snap(r_[1]))[:2], case,
                         {k: [base[k], snap(r_[1])[k]] for k in diff(base, snap(r_[1]))}))
            break
    beyond = bool(case.get('log_only'))
    # (2) card export / import - the plain card, and the same card exported with the other columns an export may carry
    # (default columns, the start-list columns) or imported with the documented verbose option: the same competition
    import contextlib, io
    variants = [(['bib'], {}, 'plain'), (None, {}, 'default-columns'),
                (['order', 'bib', 'first_name', 'last_name', 'team', 'category'], {}, 'start-list-columns'),
                (['bib'], {'verbose': True}, 'verbose-import'),
                # the result columns an exported sheet usually carries (documented as recalculated, so discarded, on import)
                (['bib', 'highest_cleared'], {}, 'result-columns')]
    for keys, kw, vname in variants:
        m = safe_call(c.to_matrix, list(keys)) if keys is not None else safe_call(c.to_matrix)
        if m[0] == 'exc':
            out.append(V('card-roundtrip', ['to_matrix-raises', m[1]] + ([vname] if vname != 'plain' else []), case, m[:3]))
            break
        if not c.jumpers:
            break
        if vname == 'start-list-columns' and any(str(getattr(j, 'order', 1)).upper() in ('DNS', 'DQ') or getattr(j, 'order', 1) is None for j in c.jumpers):
            continue          # non-starters are not replayed by an import (documented): not the same competition
        with contextlib.redirect_stdout(io.StringIO()):
            r2 = safe_call(HighJumpCompetition.from_matrix, m[1], **kw)
        if r2[0] == 'exc':
            if not beyond:
                out.append(V('card-roundtrip', ['from_matrix-raises', r2[1]] + ([vname] if vname != 'plain' else []), case,
                             {'matrix': m[1], 'error': r2[:3]}))
                break
        else:
            a, b = no_pass(base), no_pass(snap(r2[1]))
            if beyond:
                # a history that left the territory the rules speak about (a pass in a jump-off, the bar moved before
                # everybody jumped, nobody cleared anything): who is placed where is not defined there and the import
                # (which replays the card round-robin) may rank differently, but the cards, heights, bests and the STATE
                # of the competition are still those of the card
                a.pop('places', None)
                b.pop('places', None)
            if a != b:
                out.append(V('card-roundtrip', ['card-roundtrip-differs'] + ([vname] if vname != 'plain' else []) + diff(a, b)[:2], case,
                             {'matrix': m[1], 'diff': {k: [a[k], b[k]] for k in diff(a, b)}}))
                break
    if beyond:
        return out
    # (3) interleavings per height
    adds, groups = groups_of(c)
    if draw is None:
        rng = random.Random(12345)
        draw = rng.randrange
    n_inter = 0
    # vary one height at a time (others in recorded order), and all heights together for drawn orders
    for gi, (h, trials) in enumerate(groups):
        if len(set(b for op, b in trials)) < 2:
            continue
        seqs, total, complete = interleavings(trials, 120, draw)
        for seq in seqs:
            if seq == trials:
                continue
            n_inter += 1
            c2 = hjimpl.new_comp()
            for kw in adds:
                c2.add_jumper(**kw)          # the entry as it was made (start-list keywords included)
            bad = None
            for gj, (h2, t2) in enumerate(groups):
                r = hjimpl.apply(c2, ('bar', h2), bool(case.get('float_heights')))
                if r[0] != 'ok':
                    bad = ('bar', str(h2), r)
                    break
                for op, b in (seq if gj == gi else t2):
                    r = hjimpl.apply(c2, (op, b), bool(case.get('float_heights')))
                    if r[0] != 'ok':
                        bad = (op, b, r)
                        break
                if bad:
                    break
            if bad:
                out.append(V('interleaving-accepted', ['interleaving-refused', bad[0], c.state], case,
                             {'height_index': gi, 'order': seq, 'refused': bad}))
                break
            s3 = snap(c2, with_trials=False)
            b3 = {k: v for k, v in base.items() if k != 'trials'}
            if s3 != b3:
                out.append(V('interleaving-same-outcome', ['interleaving-differs'] + diff(b3, s3)[:2], case,
                             {'height_index': gi, 'order': seq, 'diff': {k: [b3[k], s3[k]] for k in diff(b3, s3)}}))
                break
    if stats is not None:
        stats['interleavings'] = stats.get('interleavings', 0) + n_inter
    return out


def nontrivial(c):
    adds, groups = groups_of(c)
    for h, trials in groups:
        cnt = {}
        for op, b in trials:
            cnt[b] = cnt.get(b, 0) + 1
        if sum(1 for v in cnt.values() if v >= 2) >= 2:
            return True
    return c.state in ('jumpoff', 'drawn') or any(getattr(j, 'round_lim', 3) == 1 for j in c.jumpers)


def do_prefix(ctx, bibs, hist, draw, c=None, log_only=False, float_heights=False):
    if draw is not None and draw(3) == 0:
        # start-list entries made with the optional keywords (names, team, category, jumping order, guest flag): no rule
        # mentions them, so the competition, its log replay, its card and its interleavings are held to the same clauses
        hist = list(hist)
        for i, cl in enumerate(hist):
            if cl[0] == 'add' and draw(2):
                hist[i] = (['add:guest', 'add:guest', 'add:full', 'add:order'][draw(4)], cl[1])
                c = None
        ctx.label('prefix-with-start-list-keywords')
    case = {'kind': 'history', 'bibs': list(bibs), 'calls': [hjsearch.enc(x) for x in hist]}
    if log_only:
        case['log_only'] = True
    if float_heights:
        case['float_heights'] = True          # the bar heights are handed over as floats (callers do; the library's tests do)
        c = None
    stats = {}
    ctx.count()
    vs = examine(case, draw, stats)
    ctx.violations(vs)
    ctx.label('interleavings-executed', stats.get('interleavings', 0))
    c = c or build(case)
    ctx.label('prefix-' + c.state)
    if nontrivial(c):
        s = snap(c, with_trials=False)
        ctx.nontrivial(hash((repr(sorted(s['cards'].items())), tuple(s['heights']))),
                       {'calls': case['calls'], 'state': c.state, 'cards': s['cards'], 'heights': s['heights'],
                        'interleavings_executed': stats.get('interleavings', 0)}
                       if len(ctx.nt_keys) % 1500 == 6 else None)


def shrink(bucket):
    case = bucket['case']
    sig = bucket['sig']
    calls = list(case['calls'])
    n = len(case['bibs'])

    extra = {'log_only': True} if case.get('log_only') else {}

    def fails(cs):
        return any(v['sig'] == sig for v in examine(dict(extra, kind='history', bibs=case['bibs'], calls=cs)))
    changed = True
    while changed:
        changed = False
        for i in range(len(calls) - 1, n - 1, -1):
            t = calls[:i] + calls[i + 1:]
            if fails(t):
                calls = t
                changed = True
                break
    if len(calls) < len(case['calls']):
        c2 = dict(extra, kind='history', bibs=case['bibs'], calls=calls)
        v = [v for v in examine(c2) if v['sig'] == sig][0]
        return {'case': v['case'], 'observed': v['observed']}
    return None


def play_and_check(ctx, draw):
    marks = []

    cut = []

    def on_call(p, call, vs, status):
        if status in ('ok', 'refused', 'diverged'):
            marks.append(len(p.all_calls))
        elif status.startswith('truncated:') and not vs:
            cut.append(status)
    ib = draw(8) == 0          # numbers as bibs (start lists usually use them)
    fh = draw(5) == 0          # bar heights as floats on 1 cm / 5 cm steps
    p = hjplay.random_play(draw, on_call, noise=12, nmin=1, lenient=True, int_bibs=ib, float_heights=fh)
    ctx.label('play')
    if fh:
        ctx.label('play-float-heights')
    if ib:
        ctx.label('play-number-bibs')
    if cut:
        # the play left the territory the model speaks about: go on for a while with arbitrary calls and hold the live
        # object to its own log replay (the one clause that is about every reachable competition)
        calls = [('add', b) for b in p.m.order] + list(p.all_calls)
        for k in range(30):
            call = hjsearch.tail_call(p.c, list(p.m.order), draw)
            hjimpl.apply(p.c, call, fh)
            calls.append(call)
            if k in (9, 29):
                do_prefix(ctx, p.m.order, calls, draw, log_only=True, float_heights=fh)
        ctx.label('play-continued-beyond-the-model-(log-replay-only)')
    if not marks:
        return
    # the history is everything that was CALLED, refused calls included: a refused call must leave no trace, so the
    # live object (which saw them) must still equal its own log replay and card re-import (which do not)
    n = len(p.m.order)
    full = [('add', b) for b in p.m.order] + p.all_calls
    # only prefixes ending after an accepted or a refused call: a call that left specified territory (a pass in a
    # jump-off, ...) cuts the play and is not part of any examined history
    ends = [n + k for k in marks]
    points = {ends[-1]}
    for _ in range(2):
        points.add(ends[draw(len(ends))])
    for k in sorted(points):
        do_prefix(ctx, p.m.order, full[:k], draw, float_heights=fh)
    if any(hjsearch.enc(c) for c in p.all_calls if c not in p.hist):
        ctx.label('play-with-refused-calls')


def shard_plays(ctx, payload):
    n = payload
    rng = random.Random(derive_seed(ctx.seed, 'C08', ctx.shard))
    for _ in range(n):
        play_and_check(ctx, rng.randrange)


class Visitor(object):
    def __init__(self, ctx, every, rng):
        self.ctx, self.every, self.rng, self.k = ctx, every, rng, 0
        self.seen = set()

    def __call__(self, c, m, hist, vs, status, call):
        if status != 'ok':
            return
        key = hjimpl.dedup_key(c)
        if key in self.seen:
            return
        self.seen.add(key)
        self.k += 1
        if self.k % self.every:
            return
        do_prefix(self.ctx, m.order, hist, self.rng.randrange)
        self.ctx.label('bfs-prefix')


def shard_bfs(ctx, payload):
    n, prefix, depth, max_reg, every = payload
    stats = {'calls': 0, 'states': 0, 'truncated': {}}
    rng = random.Random(derive_seed(ctx.seed, 'C08-bfs', ctx.shard))
    hjsearch.bfs(hjplay.BIBS[:n], [hjsearch.dec(x) for x in prefix], depth, max_reg, max_reg + 3,
                 Visitor(ctx, every, rng), stats)


def run(ctx):
    from checks.c02 import bfs_payloads
    from vlib.harness import Ctx
    thorough = ctx.tier == 'thorough'
    plan = [(2, 9, 4, 6), (3, 7, 3, 6)] if thorough else [(2, 8, 4, 12), (3, 6, 3, 12)]
    payloads = []
    scratch = Ctx('C08', ctx.tier, ctx.seed)
    for n, depth, max_reg, every in plan:
        payloads += [p + (every,) for p in bfs_payloads(scratch, n, depth, max_reg)]
    run_shards(ctx, 'checks.c08', 'shard_bfs', payloads, disjoint=False)
    run_shards(ctx, 'checks.c08', 'shard_plays', [6000 if thorough else 500] * 16, disjoint=False)

    @hypothesis.seed(derive_seed(ctx.seed, 'C08-hyp'))
    @settings(max_examples=2000 if thorough else 200, database=None, deadline=None,
              suppress_health_check=list(HealthCheck), phases=[Phase.generate])
    @given(st.data())
    def t(data):
        play_and_check(ctx, lambda k: data.draw(st.integers(0, k - 1)))
    t()
    ctx.extra['interleavings_executed'] = ctx.classes.get('interleavings-executed', 0)
