"""C12 — performance validation returns plausible, well-formed marks or the given error."""
import random
import re
from fractions import Fraction

import hypothesis
from hypothesis import given, settings, strategies as st, HealthCheck, Phase

import athlib
from athlib import codes
from vlib import codegen
from vlib.harness import V, derive_seed, run_shards
from vlib.lib import call, mod

PROPERTY = 'C12'
AMBIENT_PASS = True        # the same search once more under unusual ambient settings (vlib.run.AMBIENT_SETTINGS)
RULE = ('event = a code generated from the syntax tree of PAT_EVENT_CODE (half) or one of ~70 common codes / loose names '
        '("100m", "3000mW", lower case, weight-specific throws); text = half "plausible entry" (a duration derived from a '
        'drawn speed 0.3-12 m/s, a length around the record, a points total, rendered in many spellings: ss.xx, m:ss.xx, '
        'h:mm:ss, m.ss.xx, ";" and "," variants, leading zeros, 0-4 decimals) and half from a free grammar of 1-4 digit '
        'fields (incl. 60-99 and long fields), mixed separators and junk; x gender x prec option x a private error class; '
        'oracle = output-validity predicate per family + exception-class clause + re-validation (idempotence); '
        'non-trivial = an ACCEPTED text with >= 2 fields or a separator rewrite (",", ";", colon<->stop); distinct '
        '(event, text, gender, prec)')
RULE = RULE + '; the ulpc margin option spelled out, stricter and laxer (monotone in the margin, a field result within u x record)'
ASSUMPTIONS = ['speed limits are the documented ones: 0.5..11 m/s up to 400 m, 0.5..10 m/s beyond (1e-9 slack); record x 1.2 for field',
               'events outside the three families the property names (fixed-duration, custom H/L, BAL/SPB) are only '
               'checked for the exception-class, string-type and idempotence clauses']
RULE = RULE + '; every seventh case also with the documented defaults spelled out and with the error class left out'


class PrivateError(Exception):
    pass


# world records the sanity limit refers to (pinned copy of the reference tree's table; lookup logic is the check's own:
# gender in any letter case, anything else -> the better of the two)
RECORDS = {
    'm': dict(HJ=2.45, LJ=8.95, TJ=18.29, PV=6.16, HT=86.74, DT=74.08, WT=24.57, SP=23.12, JT=104.80),
    'f': dict(HJ=2.09, LJ=7.52, TJ=15.50, PV=5.06, HT=82.98, DT=76.80, WT=22.50, SP=22.63, JT=72.28),
}
RECORDS['all'] = {k: max(RECORDS['m'][k], RECORDS['f'][k]) for k in RECORDS['m']}


_OWN = [
    # only the spellings the library documents a distance estimate for (tests/test_utils.py: test_get_distance)
    (re.compile(r'^(\d+)(?:m|mH|H|h|W|w|SC|sc)?$'), lambda m: int(m.group(1))),
    (re.compile(r'^(\d+(?:\.\d+)?)(?:K|k|KW|kW|Kw|kw)$'), lambda m: int(1000 * float(m.group(1)))),
    (re.compile(r'^(\d+(?:\.\d+)?)M$'), lambda m: int(1609 * float(m.group(1)))),
    (re.compile(r'^(\d{1,2})[xX](\d+)[hH]?$'), lambda m: int(m.group(1)) * int(m.group(2))),
    (re.compile(r'^MAR$'), lambda m: 42195),
    (re.compile(r'^HM$'), lambda m: 21098),
    (re.compile(r'^MILE$'), lambda m: 1609),
]


def own_distance(event):
    """Metres of the customary spellings, computed by the check (None: not one of them - the library's estimate is
    used then, which C10 examines)."""
    if not event.isascii():
        return None
    for pat, f in _OWN:
        m = pat.match(event)
        if m:
            return f(m)
    return None


def record_for(event, gender):
    g = gender.lower() if isinstance(gender, str) else 'all'
    return RECORDS.get(g, RECORDS['all']).get(event.upper())


COMMON = ['60', '100', '200', '400', '800', '1500', '3000', '5000', '10000', '110H', '100H', '400H', '3000SC', '2000SC',
          '60H', '300', '600', '1000', '150', 'MILE', '2MILE', '5K', '10K', 'HM', 'MAR', 'XC', '5M', '10M', '20KW', '3000W',
          '3KW', '4x100', '4x400', '4x200', '4x800', '4x1500', '3x800', '4xRELAY', '6xSDMR', '4xDMR',
          'HJ', 'PV', 'LJ', 'TJ', 'SP', 'DT', 'HT', 'JT', 'WT', 'SHJ', 'SLJ', 'STJ', 'OT', 'ST', 'BT', 'GDT', 'SWT',
          'SP4K', 'SP7.26K', 'DT1.5K', 'HT4K', 'JT600', 'JT800', 'OT150', 'WT9.08K',
          'DEC', 'HEP', 'PEN', 'PENI', 'OCT', 'T26', 'T60', '24HR', 'H1', 'L9', 'BAL', 'SPB']
LOOSE = ['60m', '100m', '200m', '400m', '800m', '1500m', '3000m', '5000m', '10000m', '3000mW', '110mH', 'Mar', 'xc', 'Xc',
         'hj', 'Pv', 'lj', 'sp', 'jt', 'dec', 'Hep', 'mar', 'hm', 'mile', '100h', '3000sc', '4X100', 'sp4k', 'dt1.5kg']
GENDERS = ['all', 'm', 'f', 'M', 'F', 'other']
PRECS = [None, None, None, 0, 1, 2, 3]

_LOOSE_TIMED = re.compile(r'^\d+m([HW]?)$')
_TIMED_SHAPE = re.compile(r'^(?:(\d+):)?(?:(\d{1,2}):)?(\d{1,2})(\.\d+)?$')


def family(event):
    """The oracle's view of which family an event name belongs to."""
    if codes.PAT_RACES_FOR_DISTANCE.match(event):
        return 'fixed'
    if event.upper() in codes.CUSTOM_EVENTS:
        return 'custom'
    if codes.PAT_FIELD.match(event):
        return 'field'
    if codes.PAT_MULTI.match(event):
        return 'multi'
    if codes.PAT_TIMED_EVENT.match(event) or _LOOSE_TIMED.match(event):
        return 'timed'
    if codes.PAT_EVENT_CODE.match(event):
        return 'other-code'         # SPB etc.
    return 'not-a-code'


def _mk(base):
    return type('Private' + base.__name__, (base,), {})


_ERROR_CLASSES = [_mk(b) for b in (KeyError, LookupError, RuntimeError, TypeError, ValueError, ArithmeticError, OverflowError,
                                   AttributeError, IndexError, AssertionError)]


def run_f(event, text, gender, prec):
    kw = {'errorKlass': PrivateError}
    if gender != 'all':
        kw['gender'] = gender
    if prec is not None:
        kw['prec'] = prec
    return call(athlib.check_performance_for_discipline, event, text, **kw)


def dist_band(d):
    if d is None:
        return 'unknown'
    return '<=200' if d <= 200 else '<=400' if d <= 400 else '<800' if d < 800 else '>=800'


def reread_cause(event, result, d):
    """Why a returned text does not re-validate to itself — computed from the result text only."""
    if not codes.PAT_PERF.match(result):
        return 'perf-pattern'
    if d and d <= 200 and ':' in result and '.' not in result:
        return 'reread-colon-as-stop'
    if d and d >= 800 and '.' in result and ':' not in result:
        return 'reread-stop-as-colon'
    if event in ('800', '1500', '3000') and result.count(':') == 2 and '.' not in result:
        return 'reread-3-fields'
    if d == 400 and ':' in result:
        return 'reread-400-minutes'
    if result.startswith('0:') or result.startswith('00:'):
        return 'leading-zero-field'
    return 'other'


def examine(case):
    event, text, gender, prec = case['event'], case['text'], case.get('gender', 'all'), case.get('prec')
    fam = family(event)
    out = []
    r = run_f(event, text, gender, prec)
    if case.get('spelled_out'):
        # the same call with the documented defaults spelled out (gender='all', prec=None, positional gender) and with the
        # error class left out (then ValueError itself is the caller's class): same outcome
        r2 = call(athlib.check_performance_for_discipline, event, text, gender, errorKlass=PrivateError, prec=prec)
        r3 = call(athlib.check_performance_for_discipline, event, text, gender=gender, prec=prec)
        if r2[:2] != r[:2]:
            out.append(V('defaults-spelled-out', ['defaults', 'explicit-differs'], case, r2[:3], r[:3]))
        # the record margin option `ulpc` (default 1.2): spelled out it is the same call; a stricter margin never accepts
        # what the default refuses nor changes the text, a laxer one never refuses what the default accepts, and whatever a
        # margin u lets through for a field event lies within u x the record
        kwu = {'errorKlass': PrivateError}
        if gender != 'all':
            kwu['gender'] = gender
        if prec is not None:
            kwu['prec'] = prec
        ru = {u: call(athlib.check_performance_for_discipline, event, text, ulpc=u, **kwu) for u in (1.0, 1.2, 1.5)}
        if ru[1.2][:2] != r[:2]:
            out.append(V('defaults-spelled-out', ['defaults', 'explicit-ulpc-differs'], case, ru[1.2][:3], r[:3]))
        if ru[1.0][0] == 'ret' and ru[1.0][:2] != r[:2]:
            out.append(V('defaults-spelled-out', ['ulpc', 'stricter-margin-accepts-or-differs'], case, ru[1.0][:3], r[:3]))
        if r[0] == 'ret' and ru[1.5][:2] != r[:2]:
            out.append(V('defaults-spelled-out', ['ulpc', 'laxer-margin-refuses-or-differs'], case, ru[1.5][:3], r[:3]))
        # the caller's error class may descend from anything (KeyError, LookupError, RuntimeError, TypeError, ValueError,
        # ArithmeticError, OverflowError ...): the same texts are let through, the same refused - with exactly that class
        for K in _ERROR_CLASSES:
            kwk = dict(kwu, errorKlass=K)
            rk = call(athlib.check_performance_for_discipline, event, text, **kwk)
            if (r[0] == 'ret' and rk[:2] != r[:2]) or (r[0] == 'exc' and r[1] == 'PrivateError' and (rk[0] != 'exc' or rk[1] != K.__name__)):
                out.append(V('only-the-given-error', ['error-class-ancestry', K.__mro__[1].__name__, 'returned' if rk[0] == 'ret' else rk[1]],
                             dict(case, error_class_base=K.__mro__[1].__name__), rk[:3], r[:3]))
                break
        if fam == 'field':
            rec = record_for(event, gender)
            for u, x in ru.items():
                if rec and x[0] == 'ret' and isinstance(x[1], str) and re.match(r'^\d+\.\d\d$', x[1]) and float(x[1]) > rec * u + 1e-9:
                    out.append(V('field-plausible', ['field', 'beyond-record', 'ulpc-%s' % u], case, [x[1], rec]))
        if (r3[0] == 'ret') != (r[0] == 'ret') or (r3[0] == 'ret' and r3[1] != r[1]) or \
                (r3[0] == 'exc' and r[1] == 'PrivateError' and r3[1] != 'ValueError'):
            out.append(V('only-the-given-error', ['defaults', 'default-error-class'], case, r3[:3], r[:3]))
    if r[0] == 'exc':
        if r[1] != 'PrivateError':
            out.append(V('only-the-given-error', ['leak', r[1], '%s:%s' % r[3]], case, r[:3]))
        return out
    res = r[1]
    if not isinstance(res, str):
        out.append(V('returns-string', ['type', type(res).__name__, fam], case, res))
        return out
    if text.strip() == '' and event.lower() == 'xc':
        return out          # documented: an empty XC entry is returned as is
    d = None
    if fam == 'timed':
        d = own_distance(event)
        if d is None:
            dr = call(athlib.get_distance, event)
            d = dr[1] if dr[0] == 'ret' else None
        m = _TIMED_SHAPE.match(res)
        if not m:
            out.append(V('timed-shape', ['shape', 'timed', 'not-h:mm:ss'], case, res))
        else:
            fields = [x for x in res.split(':')]
            secs = float(fields[-1])
            if len(fields) > 1 and secs >= 60:
                out.append(V('timed-shape', ['shape', 'timed', 'seconds>=60'], case, res))
            if len(fields) == 3 and int(fields[1]) >= 60:
                out.append(V('timed-shape', ['shape', 'timed', 'minutes>=60'], case, res))
            if d:
                dur = call(athlib.parse_hms, res)
                if dur[0] == 'ret' and dur[1] > 0:
                    v = Fraction(d) / Fraction(dur[1])
                    top = 11 if d <= 400 else 10
                    if v > Fraction(top) + Fraction(1, 10 ** 9):
                        out.append(V('plausible-speed', ['speed', 'too-fast', dist_band(d)], case, [res, float(v)]))
                    if v < Fraction(1, 2) - Fraction(1, 10 ** 9):
                        out.append(V('plausible-speed', ['speed', 'too-slow', dist_band(d)], case, [res, float(v)]))
                elif dur[0] == 'ret' and dur[1] == 0:
                    out.append(V('plausible-speed', ['speed', 'zero-duration', dist_band(d)], case, res))
    elif fam == 'field':
        if not re.match(r'^\d+\.\d\d$', res):
            out.append(V('field-shape', ['shape', 'field', 'not-2-decimals'], case, res))
        else:
            rec = record_for(event, gender)
            if rec and float(res) > rec * 1.2 + 1e-9:
                out.append(V('field-plausible', ['field', 'beyond-record'], case, [res, rec]))
    elif fam == 'multi':
        if not re.match(r'^\d+$', res) or int(res) >= 10000:
            out.append(V('multi-shape', ['shape', 'multi', 'not-int-below-10000'], case, res))
    # idempotence
    r2 = run_f(event, res, gender, prec)
    if r2 != ('ret', res):
        cause = reread_cause(event, res, d) if fam == 'timed' else ('perf-pattern' if not codes.PAT_PERF.match(res)
                                                                    and fam not in ('fixed', 'custom') else 'other')
        out.append(V('revalidates-unchanged', ['idempotent', fam, cause], case, {'first': res, 'again': r2[:3]}))
    return out


# ---------------------------------------------------------------------------------------------
# generators

def digits(draw, kind=None):
    k = draw(12) if kind is None else kind
    if k <= 2:
        return str(draw(10))
    if k <= 5:
        return '%02d' % draw(60)
    if k == 6:
        return str(60 + draw(40))
    if k == 7:
        return str(100 + draw(900))
    if k == 8:
        return ''.join(str(draw(10)) for _ in range(4 + draw(3)))
    if k == 9:
        return '0' + str(draw(10))
    if k == 10:
        return '00' + str(draw(10))
    return ''


JUNK = ['', ' ', 'DNF', 'DNS', 'DQ', 'NT', 'x', '-', '--', '1e3', '1E2', 'inf', 'nan', '-1', '+5', '9.73w', '1:2:3:4', '1..2',
        '1:', ':1', '1.2.3.4', '12 34', '1,2,3', '٣', '１２', '1_0', '0x10', '12m', ' 7.5 ', '1 :2', '2:03:59.', '.5', '5.', '0', '00',
        '0:0', '0.0', '0:00:00', '59.999', '1:59.999', '59:59.999', '99', '100', '99.99', '1:60', '60:00', '1:00:60',
        '100%', '%s', '%d', '%(x)s', '{0}', '{}', '12%3A34', '10.5%', '1:2%', '\\', '\x00', '9.58\x00']


def extreme_text(draw):
    """The far ends of the domain: tiny positive values, all-zero prefixes, very long fields."""
    k = draw(6)
    d = 1 + draw(9)
    prefix = ['', '0:', '00:', '0:0:', '00:00:', '0:00:'][draw(6)]
    if k == 0:
        return prefix + '0.00%d' % d
    if k == 1:
        return prefix + '0,00%d' % d
    if k == 2:
        return prefix + '0.0%d' % d
    if k == 3:
        return prefix + '0.000%d' % d
    if k == 4:
        return prefix + '00.00%d' % d
    if draw(3) == 0:
        return str(1 + draw(9)) * (300 + draw(120))           # hundreds of digits: beyond any float
    return ''.join(str(draw(10)) for _ in range(7 + draw(6))) + ('.%d' % d if draw(2) else '')


def grammar_text(draw):
    if draw(12) == 0:
        return extreme_text(draw)
    if draw(10) == 0:
        return JUNK[draw(len(JUNK))]
    n = [1, 1, 1, 2, 2, 2, 2, 3, 3, 4][draw(10)]
    seps = [':', ':', ':', ':', ';', '.', ',', ' ']
    t = digits(draw)
    for _ in range(n - 1):
        t += seps[draw(len(seps))] + digits(draw)
    k = draw(6)
    if k >= 3:
        t += ['.', '.', ','][draw(3)] + ''.join(str(draw(10)) for _ in range(draw(5)))
    if draw(8) == 0:
        t = ' ' + t + ' '
    return t


def render_duration(cs, draw):
    """Spellings of a duration of cs centiseconds."""
    h, rem = divmod(cs, 360000)
    m, rem = divmod(rem, 6000)
    s, c = divmod(rem, 100)
    style = draw(12)
    dec = ['', '.%02d' % c, '.%d' % (c // 10), '.%02d0' % c, ',%02d' % c][draw(5)]
    if style == 0 or (h == 0 and m == 0 and style < 6):
        return '%d%s' % (cs // 100, dec)                      # seconds only
    if h:
        base = '%d:%02d:%02d' % (h, m, s)
    else:
        base = ['%d:%02d', '%02d:%02d', '0:%d:%02d', '00:%02d:%02d'][draw(4) if style > 8 else 0] % (m, s)
    t = base + dec
    if style == 7:
        t = t.replace(':', ';')
    elif style == 8:
        t = t.replace(':', '.')
    elif style == 9 and not dec:
        t = t.replace(':', '.', 1)
    return t


def plausible_text(event, fam, draw):
    if fam == 'timed':
        dr = call(athlib.get_distance, event)
        d = dr[1] if dr[0] == 'ret' and dr[1] else 1000
        milli_speed = 300 + draw(11700)               # 0.3 .. 12 m/s
        if draw(4) == 0:                              # hug the limits
            milli_speed = [495, 500, 505, 9990, 10000, 10010, 10990, 11000, 11010][draw(9)]
        cs = max(1, min(int(d * 100000 / milli_speed), 100 * 3600 * 30))
        if draw(6) == 0:
            # the last hundredths before a full minute, written with more decimals, under every shape of the leading fields
            # (no minutes, minutes, hours with zero / 59 / other minutes): rounding must carry into the next field, never
            # print ':60'
            h_, rem_ = divmod(cs, 360000)
            m_ = rem_ // 6000
            if h_ and draw(2):
                m_ = 0
            elif m_ and draw(4) == 0:
                m_ = 59
            sec = '59.99' + ['5', '6', '9', '95', '99', '51', '949', '999'][draw(8)]
            if draw(8) == 0:
                sec = sec.replace('.', ',')
            if h_:
                body = '%d:%s:%s' % (h_, ['%d', '%02d'][draw(2)] % m_, sec)
            elif m_:
                body = '%d:%s' % (m_, sec)
            else:
                body = sec
            return body.replace(':', ';') if draw(10) == 0 else body
        if draw(5) == 0 and cs < 6000 * 60:
            # thousandths / ten-thousandths: rounding to the printed precision must not carry a mark across a limit
            extra = ['%d' % draw(10), '%02d' % draw(100)][draw(2)]
            m_, r_ = divmod(cs, 6000)
            body = '%d.%02d%s' % (r_ // 100, r_ % 100, extra) if not m_ else '%d:%02d.%02d%s' % (m_, r_ // 100, r_ % 100, extra)
            return body
        return render_duration(cs, draw)
    if fam == 'field':
        g = re.match(r'^[A-Za-z]+', event).group(0).upper()
        rec = RECORDS['all'].get(g) or 20.0
        if draw(4) == 0 and g in RECORDS['f']:
            # between 1.2 x one gender's record and 1.2 x the other's: only the right table refuses it
            lo_, hi_ = sorted((RECORDS['f'][g], RECORDS['m'][g]))
            c = int(lo_ * 120) + draw(max(1, int(hi_ * 120) - int(lo_ * 120) + 3)) - 1
            return '%d.%02d' % (c // 100, c % 100)
        c = draw(int(rec * 150) + 1)
        return ['%d.%02d', '%d,%02d', '%d.%02d0', '%d:%02d'][min(draw(8), 3) if draw(3) == 0 else 0] % (c // 100, c % 100) \
            if draw(6) else str(c // 100)
    if fam == 'multi':
        return str(draw(12000)) if draw(8) else '%d.%d' % (draw(9000), draw(10))
    return '%d.%02d' % (draw(20000), draw(100)) if draw(3) else str(draw(100000))


def make_case(g, draw):
    k = draw(4)
    if k <= 1:
        event = g.generate(draw)
    elif k == 2:
        event = COMMON[draw(len(COMMON))]
    else:
        event = (COMMON + LOOSE + LOOSE)[draw(len(COMMON) + 2 * len(LOOSE))]
    if draw(12) == 0:
        # a Unicode look-alike spelling (dotted capital I, Kelvin sign, full-width letters, other digits): where the general
        # pattern admits it, it is an event code like any other - of the family its pattern says
        t = codegen.lookalikes(event, draw)
        if codes.PAT_EVENT_CODE.match(t):
            event = t
    fam = family(event)
    text = plausible_text(event, fam, draw) if draw(2) else grammar_text(draw)
    return {'event': event, 'text': text, 'gender': GENDERS[draw(len(GENDERS))], 'prec': PRECS[draw(len(PRECS))]}


def nontrivial(case, r):
    if r[0] != 'ret' or not isinstance(r[1], str):
        return False
    t = case['text'].strip()
    return (':' in t or ';' in t or ',' in t or t.count('.') > 1 or r[1] != t)


def do_case(ctx, case):
    if family(case['event']) == 'not-a-code' and case['event'] not in LOOSE:
        ctx.label('outside-domain-event-skipped')       # the property speaks of valid codes and the customary names
        return
    ctx.count()
    vs = examine(case)
    ctx.violations(vs)
    r = run_f(case['event'], case['text'], case.get('gender', 'all'), case.get('prec'))
    fam = family(case['event'])
    ctx.label(('accepted-' if r[0] == 'ret' else 'refused-') + fam)
    if nontrivial(case, r):
        ctx.nontrivial((case['event'], case['text'], case.get('gender'), case.get('prec')),
                       dict(case, result=r[1]) if len(ctx.nt_keys) % 1500 == 19 else None)


def siblings(case, draw):
    """The same text again for a sibling of the event (other letter case, another family, another gender / prec): an
    answer must not be carried over from the previous call."""
    e = case['event']
    out = []
    for ev in (e.swapcase(), e.lower(), COMMON[draw(len(COMMON))]):
        if ev != e:
            out.append(dict(case, event=ev))
    out.append(dict(case, gender=GENDERS[draw(len(GENDERS))], prec=PRECS[draw(len(PRECS))]))
    return out


def shard(ctx, payload):
    n = payload
    g = codegen.Gen(codes.PAT_EVENT_CODE, 'PAT_EVENT_CODE')
    rng = random.Random(derive_seed(ctx.seed, 'C12', ctx.shard))
    for i in range(n):
        case = make_case(g, rng.randrange)
        if i % 7 == 3:
            case['spelled_out'] = True
            ctx.label('defaults-spelled-out')
        do_case(ctx, case)
        if i % 5 == 0:
            for sib in siblings(case, rng.randrange):
                do_case(ctx, sib)
                ctx.label('sibling-call')


def shrink(bucket):
    case = dict(bucket['case'])
    sig = bucket['sig']

    def fails_text(t):
        return any(v['sig'] == sig for v in examine(dict(case, text=t)))
    t = codegen.ddmin_string(case['text'], fails_text)
    case['text'] = t

    def fails_event(e):
        return any(v['sig'] == sig for v in examine(dict(case, event=e)))
    case['event'] = codegen.ddmin_string(case['event'], fails_event)
    for k, dflt in (('gender', 'all'), ('prec', None)):
        if case.get(k) != dflt and any(v['sig'] == sig for v in examine(dict(case, **{k: dflt}))):
            case[k] = dflt
    v = [v for v in examine(case) if v['sig'] == sig]
    if v:
        return {'case': v[0]['case'], 'observed': v[0]['observed']}
    return None


def run(ctx):
    thorough = ctx.tier == 'thorough'
    # the documented examples of the unit tests are part of the domain
    per = 90000 if thorough else 5000
    run_shards(ctx, 'checks.c12', 'shard', [per] * 16, disjoint=False)
    g = codegen.Gen(codes.PAT_EVENT_CODE, 'PAT_EVENT_CODE')

    @hypothesis.seed(derive_seed(ctx.seed, 'C12-hyp'))
    @settings(max_examples=6000 if thorough else 800, database=None, deadline=None,
              suppress_health_check=list(HealthCheck), phases=[Phase.generate])
    @given(st.data())
    def t(data):
        do_case(ctx, make_case(g, codegen.hyp_draw(data)))
    t()

    @hypothesis.seed(derive_seed(ctx.seed, 'C12-text'))
    @settings(max_examples=6000 if thorough else 800, database=None, deadline=None,
              suppress_health_check=list(HealthCheck), phases=[Phase.generate])
    @given(st.sampled_from(COMMON + LOOSE), st.one_of(st.text(max_size=10), st.from_regex(codes.PAT_PERF, fullmatch=True)),
           st.sampled_from(GENDERS), st.sampled_from(PRECS))
    def t2(event, text, gender, prec):
        do_case(ctx, {'event': event, 'text': text, 'gender': gender, 'prec': prec})
    t2()
    if thorough:
        from vlib import fuzzrun
        fuzzrun.run_atheris(ctx, 'fuzz/c12_checkperf.py', seconds=120,
                            seeds=[b'\x05' + b'2:33', b'\x00' + b'9.73', b'\x20' + b'0:14:53.2'])
