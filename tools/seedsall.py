#!/venv/bin/python
"""Re-evaluate every seeded change (seeded/*/) against the CURRENT checks, several at a time; one line per seed.
The check(s) run are meta.json's checks_run (or the seed's own property); a seed counts as caught when any of them exits 1.
Writes nothing: the summary is the output."""
import concurrent.futures as cf, json, os, subprocess, sys
V = os.path.dirname(os.path.dirname(os.path.abspath(__file__)))
dirs = sorted(d for d in os.listdir(os.path.join(V, 'seeded')) if os.path.isdir(os.path.join(V, 'seeded', d)))
if len(sys.argv) > 1:
    dirs = [d for d in dirs if any(d.startswith(x) or d.endswith(x) for x in sys.argv[1:])]


def one(d):
    mp = os.path.join(V, 'seeded', d, 'meta.json')
    meta = json.load(open(mp)) if os.path.exists(mp) else {}
    props = meta.get('checks_run') or [meta.get('property') or d[:3]]
    p = subprocess.run([os.path.join(V, 'tools', 'seedtest.py'), os.path.join(V, 'seeded', d), '--props', ','.join(props)],
                       stdout=subprocess.PIPE, stderr=subprocess.STDOUT, text=True)
    try:
        r = json.loads(p.stdout)
    except Exception:
        return d, 'TOOL-ERROR', p.stdout[-300:]
    verdicts = {k: v['verdict'] for k, v in (r.get('props') or {}).items()}
    ok = r.get('patch_applies') and r.get('baseline_passes') and r.get('demo_patched_rc') == 1 and r.get('demo_unpatched_rc') == 0
    caught = 'caught' in verdicts.values()
    return d, ('caught' if caught else 'NOT-CAUGHT') + ('' if ok else ' (seed no longer valid: applies=%s baseline=%s demo=%s/%s)' % (
        r.get('patch_applies'), r.get('baseline_passes'), r.get('demo_patched_rc'), r.get('demo_unpatched_rc'))), verdicts


bad = 0
with cf.ThreadPoolExecutor(max_workers=int(os.environ.get('SEED_JOBS', '5'))) as ex:
    for d, verdict, detail in ex.map(one, dirs):
        print(d, verdict, detail)
        sys.stdout.flush()
        if not verdict.startswith('caught') or 'no longer valid' in verdict:
            bad += 1
print('%d seeded changes re-evaluated, %d need attention' % (len(dirs), bad))
