"""Exact oracle for combined-events scoring (C01, C05, C09).

Coefficients are read from the library's own data (the tuple of dicts and the JSON factor
table), converted through their decimal literals; the formula, the rounding direction, the
band lookup and the event mapping are re-implemented here from the property text.
"""
import json
import os
from decimal import Decimal
from fractions import Fraction

from .exact import frac, pow_trunc, ceil_div, floor_div
from .harness import REPO
from .lib import mod

JUMPS = ('HJ', 'PV', 'LJ', 'TJ')
THROWS = ('SP', 'DT', 'HT', 'JT', 'WT')
ESAA = {'A': 0.232, 'Z': 200.0, 'X': 1.85}   # English Schools boys' 800 m (module comment)


def kind_of(event):
    if event in JUMPS:
        return 'jump'
    if event in THROWS:
        return 'throw'
    return 'timed'


def rows():
    """[(gender, event, table_event, A, Z, X, kind, esaa)] — the property's 52 rows.

    Coefficients come from the pinned copy (athlon_pinned.py); rows the library has added since are
    taken from its own table (their formula is then only checked for internal consistency)."""
    from .athlon_pinned import PINNED
    by = {}
    out = []
    for (g, e), (a, z, x) in PINNED.items():
        by[(g, e)] = (frac(a), frac(z), frac(x))
    for o in mod('athlon_score')._scoring_table:
        k = (o['gender'], o['event_code'])
        if k not in by:
            by[k] = (frac(o['A']), frac(o['Z']), frac(o['X']))
    for (g, e), (a, z, x) in by.items():
        out.append((g, e, e, a, z, x, kind_of(e), False))
    for g, e, te in (('M', '80H', '110H'), ('M', '100H', '110H'), ('F', '80H', '100H')):
        a, z, x = by[(g, te)]
        out.append((g, e, te, a, z, x, 'timed', False))
    out.append(('M', '800', '800', frac(ESAA['A']), frac(ESAA['Z']), frac(ESAA['X']), 'timed', True))
    return out


def rows_with_option():
    """Every other row with the ESAA option switched on: the option only concerns the boys' 800 m, so the expected
    points are those of the plain row."""
    out = []
    for r in rows():
        if not r[7] and not (r[0] == 'M' and r[1] == '800'):
            out.append(r[:7] + ('noop',))
    return out


_factors = None


def factor_table():
    global _factors
    if _factors is None:
        path = os.path.join(REPO, 'athlib', 'wma', 'wma-athlons-data.json')
        with open(path, encoding='utf-8') as f:
            data = json.load(f, parse_float=Decimal, parse_int=Decimal)
        ages = [int(a) for a in data['ages']]
        t = {}
        for g in 'mf':
            for row in data[g]:
                ev = row[0]
                # row[k] belongs to the band ages[k] (k >= 1); column 0 is the event name
                t[(g.upper(), ev)] = {ages[k]: Fraction(row[k]) for k in range(1, len(row))}
        _factors = (ages, t)
    return _factors


def factor_event(event):
    """Event name as the combined-events factor table knows it."""
    e = event.upper()
    if e.endswith('H') and e not in ('LH', 'SH', '60H') and e[:-1].isdigit():
        n = int(e[:-1])
        if n <= 110:
            return 'SH'
        if n >= 200:
            return 'LH'
        return None
    return e


def exact_factor(gender, event, age):
    """Fraction factor, 1 below the first band, or None when the table defines none."""
    if not age:
        return Fraction(1)
    ages, t = factor_table()
    first = ages[1]
    if age < first:
        return Fraction(1)
    band = min(5 * (int(age) // 5), ages[-1])
    row = t.get((gender, factor_event(event)))
    if row is None:
        return None
    return row.get(band)


_cache = {}


def points_for_rounded(rowkey, A, Z, X, kind, vc):
    """Points for the mark already rounded to centi-units vc (after the age factor)."""
    k = (rowkey, vc)
    p = _cache.get(k)
    if p is None:
        v = Fraction(vc, 100)
        if kind == 'jump':
            base = v * 100 - Z
        elif kind == 'throw':
            base = v - Z
        else:
            base = Z - v
        p = pow_trunc(A, base, X) if base > 0 else 0
        if len(_cache) > 2000000:
            _cache.clear()
        _cache[k] = p
    return p


def exact_points(row, c, age=None):
    """Exact points for mark c/100 in `row` (a tuple from rows()); None if undefined."""
    g, e, te, A, Z, X, kind, esaa = row
    f = exact_factor(g, e, age)
    if f is None:
        return None
    v100 = Fraction(c) * f            # 100 * mark * factor, exactly
    vc = ceil_div(v100) if kind == 'timed' else floor_div(v100)
    return points_for_rounded((g, te, esaa), A, Z, X, kind, vc)
