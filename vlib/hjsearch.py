"""Search over high-jump call histories: per-call comparison of the implementation with the model,
breadth-first enumeration with state de-duplication, and helpers shared by C02, C03 and C08."""
from decimal import Decimal

from . import hjimpl, hjmodel
from .harness import V
from .hjmodel import ACCEPT, REJECT, UNSPEC, LEVEL, TRIALS

STEP = Decimal('0.05')
FIRST = Decimal('1.00')


def bar_choices(heights):
    if not heights:
        return [FIRST, Decimal('0.00'), Decimal('-0.05')]
    last = heights[-1]
    return [last + STEP, last, last - STEP]


def enc(call):
    return [call[0], str(call[1])]


def dec(call):
    op, arg = call
    return (op, Decimal(arg)) if op == 'bar' else (op, arg)


def diff_fields(a, b):
    names = ['state', 'heights', 'bar_height', 'athletes', 'actions', 'ranking-order', 'best-index', 'to_matrix', 'trials']
    return [names[i] for i in range(min(len(a), len(b))) if a[i] != b[i]] or ['shape']


def check_call(c, m, call, hist, before=None, float_heights=False):
    """Apply `call` to implementation c and model m (both mutated).  Returns (violations, status) with
    status in ok / refused / truncated:<why>."""
    op = call[0]
    stage0 = c.state
    verdict, why = m.expect(call)
    if before is None:
        before = hjimpl.snapshot(c, full=True)
    lvl0 = LEVEL.get(stage0, -1)
    r = hjimpl.apply(c, call, float_heights)
    out = []
    case = {'kind': 'history', 'bibs': list(m.order), 'calls': [enc(x) for x in hist] + [enc(call)]}
    if float_heights:
        case['float_heights'] = True
    if r[0] == 'refused':
        if r[1] != 'RuleViolation':
            out.append(V('refusal-raises-RuleViolation', ['refusal-type', r[1], op], case, r))
        after = hjimpl.snapshot(c, full=True)
        if after != before:
            out.append(V('refused-call-changes-nothing', ['refusal-mutates', op] + diff_fields(before, after)[:2], case,
                         {'changed': diff_fields(before, after), 'stage_before': stage0, 'stage_after': c.state}))
            return out, 'truncated:refusal-mutated'
        if verdict == ACCEPT:
            out.append(V('accepted-exactly-when-allowed', ['wrongly-refused', op, stage0], case, r, 'accepted'))
            return out, 'truncated:wrongly-refused'
        return out, 'refused'
    # accepted
    if LEVEL.get(c.state, -1) < lvl0:
        out.append(V('stage-only-moves-forward', ['stage-regressed', stage0, c.state], case, [stage0, c.state]))
    if lvl0 == 3:
        out.append(V('nothing-after-finished-or-drawn', ['accepted-when-decided', op, stage0], case, c.state))
    if verdict == REJECT:
        out.append(V('accepted-exactly-when-allowed', ['wrongly-accepted', op, stage0, why], case, 'accepted', 'RuleViolation: ' + why))
        return out, 'truncated:wrongly-accepted'
    m.apply(call)
    if verdict == UNSPEC:
        return out, 'truncated:' + why
    if m.left_spec:
        return out, 'truncated:no-clearance'
    obs = hjimpl.observe(c)
    if obs['cards'] != m.cards():
        out.append(V('cards-record-the-accepted-trials', ['cards-differ', op, stage0], case, obs['cards'], m.cards()))
        return out, 'truncated:cards'
    if obs['stage'] != m.stage:
        out.append(V('stage-follows-the-rules', ['stage-differs', 'impl-' + obs['stage'], 'model-' + m.stage,
                                                'from-' + stage0], case, obs['stage'], m.stage))
        return out, 'truncated:stage'
    return out, 'ok'


def start(bibs):
    c = hjimpl.new_comp()
    m = hjmodel.Model()
    hist = []
    for b in bibs:
        hjimpl.apply(c, ('add', b))
        m.apply(('add', b))
        hist.append(('add', b))
    return c, m, hist


def alphabet(c, m, max_reg, max_total):
    """Every call of the alphabet at this state (legal or not); bar calls pruned by the height bounds."""
    calls = []
    nh = len(m.heights)
    in_jo = m.stage == 'jumpoff'
    if (not in_jo and nh < max_reg) or (in_jo and nh < max_total and
                                        (m.first_jo is None or nh - m.first_jo < 3)):
        for h in bar_choices(m.heights):
            calls.append(('bar', h))
    for b in m.order:
        for op in TRIALS:
            calls.append((op, b))
    calls.append(('add', 'Z'))
    calls.append(('add', m.order[0]))
    return calls


def replay(case, on_state=None):
    """Re-execute a stored history from scratch; returns all violations met (plain calls, no generator)."""
    c, m, hist = start(case['bibs'])
    out = []
    fh = bool(case.get('float_heights'))
    for raw in case['calls'][len(case['bibs']):]:
        call = dec(raw)
        vs, status = check_call(c, m, call, hist, None, fh)
        out.extend(vs)
        if status.startswith('truncated'):
            break
        if status == 'ok':
            hist.append(call)
            if on_state:
                out.extend(on_state(c, m, hist))
    return out


def bfs(bibs, prefix, depth, max_reg, max_total, visit, stats):
    """Enumerate all call sequences (legal or not) to `depth` calls after `prefix`, de-duplicated by state.

    visit(c, m, hist, vs, status, call) is called for every executed call."""
    c, m, hist = start(bibs)
    for call in prefix:
        vs, status = check_call(c, m, call, hist)
        visit(c, m, hist + [call], vs, status, call)
        if status != 'ok':
            return
        hist.append(call)
    frontier = [(c, m, hist)]
    seen = {hjimpl.dedup_key(c)}
    for d in range(depth):
        nxt = []
        for c, m, hist in frontier:
            backup = None
            before = hjimpl.snapshot(c, full=True)
            for call in alphabet(c, m, max_reg, max_total):
                verdict, _ = m.expect(call)
                if verdict == REJECT:
                    # expected refusal: run on the shared object, fall back to a clone if it misbehaves
                    if backup is None:
                        backup = hjimpl.clone(c)
                    vs, status = check_call(c, m, call, hist, before)
                    stats['calls'] += 1
                    visit(c, m, hist + [call], vs, status, call)
                    if status != 'refused':
                        c = hjimpl.clone(backup)
                    continue
                c2 = hjimpl.clone(c)
                m2 = m.copy()
                vs, status = check_call(c2, m2, call, hist, before)
                stats['calls'] += 1
                h2 = hist + [call]
                visit(c2, m2, h2, vs, status, call)
                if status == 'ok':
                    k = hjimpl.dedup_key(c2)
                    if k not in seen:
                        seen.add(k)
                        nxt.append((c2, m2, h2))     # decided states too: every call must then be refused
                elif status.startswith('truncated'):
                    stats['truncated'][status[10:]] = stats['truncated'].get(status[10:], 0) + 1
        frontier = nxt
        stats['states'] += len(nxt)
        if not frontier:
            break
