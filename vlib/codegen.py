"""Generate strings from the syntax tree of the library's own regular expressions.

`Gen(pattern)` parses a compiled pattern with the stdlib's regex parser and produces members of
its language through a `draw(n) -> int in [0, n)` callback, so the same code serves Hypothesis
(shrinkable: draw = data.draw(integers)) and fast seeded bulk generation (draw = rng.randrange).
Which alternative of which BRANCH node was taken is recorded in `Gen.covered`.
"""
import re
try:
    import re._parser as sre_parse
    import re._constants as sre_c
except ImportError:  # pragma: no cover  (python < 3.11)
    import sre_parse
    import sre_constants as sre_c

DIGITS_EXTRA = ['٣', '３', '१']          # ARABIC-INDIC 3, FULLWIDTH 3, DEVANAGARI 1
SPACES = [' ', '\t', '\n', '\x0b', '\x0c', '\r', '\x1c', '\x85', '\xa0', ' ', '　']


def cat_members(cat):
    if cat == sre_c.CATEGORY_DIGIT:
        return list('0123456789') + DIGITS_EXTRA
    if cat == sre_c.CATEGORY_SPACE:
        return SPACES
    if cat == sre_c.CATEGORY_WORD:
        return list('abzAZ09_')
    raise NotImplementedError(cat)


def cat_contains(cat, ch):
    if cat == sre_c.CATEGORY_DIGIT:
        return ch.isdecimal()
    if cat == sre_c.CATEGORY_SPACE:
        return ch.isspace()
    if cat == sre_c.CATEGORY_WORD:
        return ch.isalnum() or ch == '_'
    if cat == sre_c.CATEGORY_NOT_DIGIT:
        return not ch.isdecimal()
    if cat == sre_c.CATEGORY_NOT_SPACE:
        return not ch.isspace()
    raise NotImplementedError(cat)


def in_contains(items, ch):
    neg = False
    hit = False
    for op, av in items:
        if op is sre_c.NEGATE:
            neg = True
        elif op is sre_c.LITERAL:
            hit = hit or ord(ch) == av
        elif op is sre_c.RANGE:
            hit = hit or av[0] <= ord(ch) <= av[1]
        elif op is sre_c.CATEGORY:
            hit = hit or cat_contains(av, ch)
        else:
            raise NotImplementedError(op)
    return hit != neg


def in_members(items):
    """Representative members of a character class (ASCII members as written + Unicode reps)."""
    out = []
    neg = any(op is sre_c.NEGATE for op, av in items)
    if neg:
        cands = [chr(c) for c in range(32, 127)] + DIGITS_EXTRA + SPACES
        return [c for c in cands if in_contains(items, c)]
    for op, av in items:
        if op is sre_c.LITERAL:
            out.append(chr(av))
        elif op is sre_c.RANGE:
            lo, hi = av
            if hi - lo <= 16:
                out.extend(chr(c) for c in range(lo, hi + 1))
            else:
                out.extend(chr(c) for c in (lo, lo + 1, (lo + hi) // 2, hi - 1, hi))
        elif op is sre_c.CATEGORY:
            out.extend(cat_members(av))
        else:
            raise NotImplementedError(op)
    return out


class Gen(object):
    REPEAT_EXTRA = (0, 1, 2, 5)

    def __init__(self, pattern, name=None):
        self.pattern = pattern
        self.name = name or pattern.pattern[:30]
        self.tree = sre_parse.parse(pattern.pattern, pattern.flags)
        self.branch_ids = {}
        self.alts_total = 0
        self.covered = set()
        self.unsupported = set()
        self._wcache = {}
        self._index(self.tree)

    def _index(self, sub):
        for op, av in sub:
            if op is sre_c.BRANCH:
                self.branch_ids[id(av[1])] = len(self.branch_ids)
                self.alts_total += len(av[1])
                for alt in av[1]:
                    self._index(alt)
            elif op is sre_c.SUBPATTERN:
                self._index(av[3])
            elif op in (sre_c.MAX_REPEAT, sre_c.MIN_REPEAT):
                self.alts_total += 2      # "minimum count" and "more than minimum" as two coverage tags
                self._index(av[2])
            elif op is sre_c.GROUPREF_EXISTS:
                for side in (av[1], av[2]):
                    if side is not None:
                        self._index(side)
            elif op in (sre_c.ASSERT, sre_c.ASSERT_NOT):
                self._index(av[1])

    def _weight(self, sub):
        """Rough size of a sub-language: alternatives weigh in so deep families are not starved."""
        w = 1
        for op, av in sub:
            if op is sre_c.BRANCH:
                w += sum(self._weight(a) for a in av[1]) - 1
            elif op is sre_c.SUBPATTERN:
                w += self._weight(av[3]) - 1
            elif op in (sre_c.MAX_REPEAT, sre_c.MIN_REPEAT):
                w += self._weight(av[2])
            elif op is sre_c.GROUPREF_EXISTS:
                w += sum(self._weight(x) for x in (av[1], av[2]) if x is not None)
        return min(w, 40)

    def _weights(self, alts):
        c = self._wcache.get(id(alts))
        if c is None:
            acc = 0
            c = []
            for a in alts:
                acc += self._weight(a)
                c.append(acc)
            self._wcache[id(alts)] = c
        return c

    def _is_digit_item(self, item):
        try:
            if len(item) != 1:
                return False
            op, av = item[0]
            if op is sre_c.IN:
                ms = in_members(av)
            elif op is sre_c.CATEGORY:
                ms = cat_members(av)
            else:
                return False
            return '0' in ms and '9' in ms
        except Exception:
            return False

    def generate(self, draw, long_digits=False):
        out = []
        self._gen(self.tree, draw, out, long_digits)
        return ''.join(out)

    def _gen(self, sub, draw, out, long_digits):
        for op, av in sub:
            if op is sre_c.LITERAL:
                out.append(chr(av))
            elif op is sre_c.NOT_LITERAL:
                out.append('x' if av != ord('x') else 'y')
            elif op is sre_c.IN:
                ms = in_members(av)
                # bias to the ASCII members: Unicode digit/space representatives are the rare tail
                asc = [m for m in ms if ord(m) < 128 and m not in '\t\n\x0b\x0c\r\x1c'] or ms
                k = draw(len(asc) * 7 + len(ms))
                out.append(asc[k % len(asc)] if k < len(asc) * 7 else ms[k - len(asc) * 7])
            elif op is sre_c.ANY:
                out.append('?')
            elif op is sre_c.BRANCH:
                alts = av[1]
                ws = self._weights(alts)
                r = draw(ws[-1])
                k = 0
                while ws[k] <= r:
                    k += 1
                self.covered.add((self.branch_ids[id(alts)], k))
                self._gen(alts[k], draw, out, long_digits)
            elif op is sre_c.SUBPATTERN:
                self._gen(av[3], draw, out, long_digits)
            elif op in (sre_c.MAX_REPEAT, sre_c.MIN_REPEAT):
                lo, hi, item = av
                hi_eff = hi if hi is not sre_c.MAXREPEAT and hi < 1000 else lo + (12 if long_digits else 5)
                choices = sorted(set(min(lo + e, hi_eff) for e in self.REPEAT_EXTRA))
                if long_digits and hi_eff > lo + 5:
                    choices.append(hi_eff)
                n = choices[draw(len(choices))]
                self.covered.add(('rep', id(item), n == lo))
                if n >= 2 and self._is_digit_item(item) and draw(4) == 0:
                    # patterned digit runs (independent random digits almost never give them): zeroes then one digit
                    # (0.00005), one digit then zeroes (50000 / 2.5000), all zeroes, all nines
                    d = '123456789'[draw(9)]
                    out.append(['0' * (n - 1) + d, d + '0' * (n - 1), '0' * n, '9' * n][draw(4)])
                    continue
                for _ in range(n):
                    self._gen(item, draw, out, long_digits)
            elif op is sre_c.AT:
                pass
            elif op is sre_c.CATEGORY:
                ms = cat_members(av)
                out.append(ms[draw(len(ms))])
            elif op is sre_c.GROUPREF_EXISTS:
                # (?(n)yes|no): which side applies depends on the enclosing pattern's group numbering; generate
                # either side - membership is always decided by the compiled patterns, never by this generator
                yes, no = av[1], av[2]
                side = yes if (draw(2) or no is None) else no
                if side is not None:
                    self._gen(side, draw, out, long_digits)
            elif op in (sre_c.ASSERT, sre_c.ASSERT_NOT, sre_c.GROUPREF):
                self.unsupported.add(str(op))        # look-arounds / back-references: nothing emitted
            else:
                self.unsupported.add(str(op))

    def coverage(self):
        return len(self.covered), self.alts_total


def hyp_draw(data):
    from hypothesis import strategies as st
    return lambda n: data.draw(st.integers(0, n - 1)) if n > 1 else 0


# ---------------------------------------------------------------------------------------------
# class-representative alphabet

def class_nodes(patterns):
    """All IN / LITERAL / CATEGORY nodes of the given compiled patterns."""
    nodes = []

    def walk(sub):
        for op, av in sub:
            if op is sre_c.LITERAL:
                nodes.append(('lit', av))
            elif op is sre_c.IN:
                nodes.append(('in', tuple((o, a) for o, a in av)))
            elif op is sre_c.CATEGORY:
                nodes.append(('cat', av))
            elif op is sre_c.BRANCH:
                for alt in av[1]:
                    walk(alt)
            elif op is sre_c.SUBPATTERN:
                walk(av[3])
            elif op in (sre_c.MAX_REPEAT, sre_c.MIN_REPEAT):
                walk(av[2])
            elif op is sre_c.AT:
                pass
            elif op is sre_c.GROUPREF_EXISTS:
                for side in (av[1], av[2]):
                    if side is not None:
                        walk(side)
            elif op in (sre_c.ASSERT, sre_c.ASSERT_NOT):
                walk(av[1])
            elif op is sre_c.NOT_LITERAL:
                nodes.append(('lit', av))
            else:
                pass        # back-references, ANY ...: no character class to partition on
    for p in patterns:
        walk(sre_parse.parse(p.pattern, p.flags))
    # de-duplicate
    seen = []
    for n in nodes:
        if n not in seen:
            seen.append(n)
    return seen


def representative_alphabet(patterns, extra_points=()):
    """One character per cell of the partition of code points induced by the classes of `patterns`."""
    nodes = class_nodes(patterns)
    cps = list(range(0, 0x3000)) + [ord(c) for c in DIGITS_EXTRA + SPACES] + [0xFF10, 0xFF19, 0x1D7CE, 0x10FFFF]
    cps += list(extra_points)
    cells = {}
    for cp in cps:
        ch = chr(cp)
        sig = []
        for kind, av in nodes:
            if kind == 'lit':
                sig.append(cp == av)
            elif kind == 'in':
                sig.append(in_contains(av, ch))
            else:
                sig.append(cat_contains(av, ch))
        sig = tuple(sig)
        if sig not in cells:
            cells[sig] = ch
    # '\n' matters on its own because of `$`
    reps = sorted(set(cells.values()) | {'\n'})
    return reps, len(nodes)


# ---------------------------------------------------------------------------------------------
# mutations

def near_misses(s, draw, alphabet='0123456789HhKkMmgGxX .sSwWtTcCjJ:lLyY\n%%{}\\\'"\x00'):
    """One single-edit neighbour of s."""
    k = draw(5)
    if not s:
        return alphabet[draw(len(alphabet))]
    i = draw(len(s))
    if k == 0:
        return s[:i] + s[i + 1:]
    if k == 1:
        return s[:i] + alphabet[draw(len(alphabet))] + s[i:]
    if k == 2:
        return s[:i] + alphabet[draw(len(alphabet))] + s[i + 1:]
    if k == 3 and len(s) > 1:
        j = min(i, len(s) - 2)
        return s[:j] + s[j + 1] + s[j] + s[j + 2:]
    return s + alphabet[draw(len(alphabet))]


_SUP = u'\u2070\u00b9\u00b2\u00b3\u2074\u2075\u2076\u2077\u2078\u2079'
_SUB = u'\u2080\u2081\u2082\u2083\u2084\u2085\u2086\u2087\u2088\u2089'
_LETTER_LOOKALIKES = {'s': u'\u017f', 'S': u'\u017f', 'k': u'\u212a', 'K': u'\u212a', 'i': u'\u0131', 'I': u'\u0130',
                      'x': u'\u00d7', 'X': u'\u00d7', '.': u'\uff0e', ' ': u'\u00a0', 'm': u'\u217f', 'M': u'\u216f',
                      'c': u'\u217d', 'C': u'\u216d', 'l': u'\u217c', 'L': u'\u216c'}


def lookalike_char(ch, draw):
    """A character that common str predicates / case mappings treat like `ch` (isdigit, isalpha, upper(), isspace) but
    which is a different code point: superscript / subscript / circled / full-width / Arabic-Indic digits, long s, Kelvin
    sign, dotless i, Roman-numeral letters, full-width letters, no-break space."""
    if ch.isdigit() and ch in '0123456789':
        d = int(ch)
        opts = [_SUP[d], _SUB[d], chr(0xff10 + d), chr(0x0660 + d), chr(0x1d7ce + d)]
        if d:
            opts.append(chr(0x2460 + d - 1))
        return opts[draw(len(opts))]
    if ch in _LETTER_LOOKALIKES and draw(2):
        return _LETTER_LOOKALIKES[ch]
    if 'A' <= ch <= 'Z':
        return chr(0xff21 + ord(ch) - 65)
    if 'a' <= ch <= 'z':
        return chr(0xff41 + ord(ch) - 97)
    return _LETTER_LOOKALIKES.get(ch, ch)


def lookalikes(s, draw):
    """s with one, several or all characters replaced by Unicode look-alikes (see lookalike_char)."""
    if not s:
        return _SUP[draw(10)]
    mode = draw(3)
    if mode == 0:
        i = draw(len(s))
        return s[:i] + lookalike_char(s[i], draw) + s[i + 1:]
    if mode == 1:
        return ''.join(lookalike_char(c, draw) for c in s)
    return ''.join(lookalike_char(c, draw) if draw(2) else c for c in s)


def ddmin_string(s, still_fails):
    """Delete characters while `still_fails(s)` holds (1-minimal)."""
    changed = True
    while changed and len(s) > 0:
        changed = False
        for i in range(len(s)):
            t = s[:i] + s[i + 1:]
            if still_fails(t):
                s = t
                changed = True
                break
    return s
