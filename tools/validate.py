#!/opt/veriftools/pyvenv/bin/python
"""Validate MANIFEST.json and evidence/*.json against the given schemas (uses the tooling venv's jsonschema)."""
import json, glob, sys, jsonschema
ok = True
def check(path, schema):
    global ok
    try:
        jsonschema.validate(json.load(open(path)), json.load(open(schema)))
        print('valid  ', path)
    except Exception as e:
        ok = False; print('INVALID', path, str(e)[:300])
check('/verif/MANIFEST.json', '/root/.vp/MANIFEST.schema.json')
for p in sorted(glob.glob('/verif/evidence/*.json')): check(p, '/root/.vp/EVIDENCE.schema.json')
sys.exit(0 if ok else 1)
