"""Search over high-jump call histories: per-call comparison of the implementation with the model,
breadth-first enumeration with state de-duplication, and helpers shared by C02, C03 and C08."""
from decimal import Decimal

from . import hjimpl, hjmodel
from .harness import V
from .hjmodel import ACCEPT, REJECT, UNSPEC, LEVEL, TRIALS

STEP = Decimal('0.05')
FIRST = Decimal('1.00')


def bar_choices(heights):
    if not heights:
        return [FIRST, Decimal('0.00'), Decimal('-0.05')]
    last = heights[-1]
    return [last + STEP, last, last - STEP]


def enc(call):
    return [call[0], str(call[1])]


def dec(call, int_bibs=False):
    op, arg = call
    if op == 'bar':
        return (op, Decimal(arg))
    if int_bibs and isinstance(arg, str) and arg.isdigit():
        return (op, int(arg))           # the competition's bibs are numbers (start lists usually are)
    return (op, arg)


def diff_fields(a, b):
    names = ['state', 'heights', 'bar_height', 'athletes', 'actions', 'ranking-order', 'best-index', 'to_matrix', 'trials']
    return [names[i] for i in range(min(len(a), len(b))) if a[i] != b[i]] or ['shape']


def check_call(c, m, call, hist, before=None, float_heights=False):
    """Apply `call` to implementation c and model m (both mutated).  Returns (violations, status) with
    status in ok / refused / truncated:<why>."""
    op = call[0]
    stage0 = c.state
    verdict, why = m.expect(call)
    if before is None:
        before = hjimpl.snapshot(c, full=True)
    lvl0 = LEVEL.get(stage0, -1)
    r = hjimpl.apply(c, call, float_heights)
    out = []
    case = {'kind': 'history', 'bibs': list(m.order), 'calls': [enc(x) for x in hist] + [enc(call)]}
    if float_heights:
        case['float_heights'] = True
    if hjimpl.VIA_TRIAL:
        case['via_trial'] = True
    if r[0] == 'refused':
        if r[1] != 'RuleViolation':
            out.append(V('refusal-raises-RuleViolation', ['refusal-type', r[1], op], case, r))
        after = hjimpl.snapshot(c, full=True)
        if after != before:
            out.append(V('refused-call-changes-nothing', ['refusal-mutates', op] + diff_fields(before, after)[:2], case,
                         {'changed': diff_fields(before, after), 'stage_before': stage0, 'stage_after': c.state}))
            return out, 'truncated:refusal-mutated'
        if verdict == ACCEPT:
            out.append(V('accepted-exactly-when-allowed', ['wrongly-refused', op, stage0], case, r, 'accepted'))
            return out, 'truncated:wrongly-refused'
        return out, 'refused'
    # accepted
    if LEVEL.get(c.state, -1) < lvl0:
        out.append(V('stage-only-moves-forward', ['stage-regressed', stage0, c.state], case, [stage0, c.state]))
    if lvl0 == 3:
        out.append(V('nothing-after-finished-or-drawn', ['accepted-when-decided', op, stage0], case, c.state))
    if verdict == REJECT:
        out.append(V('accepted-exactly-when-allowed', ['wrongly-accepted', op, stage0, why], case, 'accepted', 'RuleViolation: ' + why))
        return out, 'truncated:wrongly-accepted'
    m.apply(call)
    if verdict == UNSPEC:
        return out, 'truncated:' + why
    if m.left_spec:
        return out, 'truncated:no-clearance'
    obs = hjimpl.observe(c)
    if obs['cards'] != m.cards():
        out.append(V('cards-record-the-accepted-trials', ['cards-differ', op, stage0], case, obs['cards'], m.cards()))
        return out, 'truncated:cards'
    if obs['stage'] != m.stage:
        out.append(V('stage-follows-the-rules', ['stage-differs', 'impl-' + obs['stage'], 'model-' + m.stage,
                                                'from-' + stage0], case, obs['stage'], m.stage))
        return out, 'truncated:stage'
    return out, 'ok'


# ---------------------------------------------------------------------------------------------
# Clauses that hold whatever the jump-off semantics: once the model stops giving verdicts (a pass in a jump-off, the bar
# moved before everybody jumped, nobody cleared anything) a history is still held to these, driving the implementation alone.

def universal_call(c, call, hist_calls, bibs, float_heights=False):
    """Apply `call` to c (mutated) under the universal clauses only.  hist_calls: every call issued so far (refused ones
    included).  Returns (violations, accepted?)."""
    op = call[0]
    stage0 = c.state
    lvl0 = LEVEL.get(stage0, -1)
    before = hjimpl.snapshot(c, full=True)
    cards0 = {j.bib: list(j.attempts_by_height) for j in c.jumpers}
    r = hjimpl.apply(c, call, float_heights)
    case = {'kind': 'history', 'bibs': list(bibs), 'calls': [enc(x) for x in hist_calls] + [enc(call)]}
    if float_heights:
        case['float_heights'] = True
    if hjimpl.VIA_TRIAL:
        case['via_trial'] = True
    out = []
    if r[0] == 'refused':
        if r[1] != 'RuleViolation':
            out.append(V('refusal-raises-RuleViolation', ['refusal-type', r[1], op], case, r))
        after = hjimpl.snapshot(c, full=True)
        if after != before:
            out.append(V('refused-call-changes-nothing', ['refusal-mutates', op] + diff_fields(before, after)[:2], case,
                         {'changed': diff_fields(before, after), 'stage_before': stage0, 'stage_after': c.state}))
        return out, False
    if LEVEL.get(c.state, -1) < lvl0:
        out.append(V('stage-only-moves-forward', ['stage-regressed', stage0, c.state], case, [stage0, c.state]))
    if lvl0 == 3:
        out.append(V('nothing-after-finished-or-drawn', ['accepted-when-decided', op, stage0], case, c.state))
    if op.startswith('badtrial'):
        out.append(V('accepted-exactly-when-allowed', ['wrongly-accepted', op, stage0, 'unknown trial letter'], case, 'accepted', 'RuleViolation'))
    if op.split(':')[0] == 'add' and stage0 != 'scheduled':
        out.append(V('accepted-exactly-when-allowed', ['wrongly-accepted', op, stage0, 'athletes join only before the first height'],
                     case, 'accepted', 'RuleViolation'))
    if op == 'bar' and stage0 != 'jumpoff' and len(c.heights) >= 2 and Decimal(str(c.heights[-1])) <= Decimal(str(c.heights[-2])):
        out.append(V('accepted-exactly-when-allowed', ['wrongly-accepted', op, stage0, 'the bar only rises outside a jump-off'],
                     case, 'accepted', 'RuleViolation'))
    if op in TRIALS:
        bib = call[1]
        card = cards0.get(bib, [])
        flat = ''.join(card)
        if 'r' in flat:
            out.append(V('accepted-exactly-when-allowed', ['wrongly-accepted', op, stage0, 'after retiring'], case,
                         {'accepted': enc(call), 'card_before': card}, 'RuleViolation: the athlete has retired'))
        cur = card[-1] if len(card) == len(c.heights) and card else ''
        if cur.endswith('o') or cur.endswith('-'):
            out.append(V('accepted-exactly-when-allowed', ['wrongly-accepted', op, stage0, 'after clearing or passing the height'],
                         case, {'accepted': enc(call), 'card_before': card}, 'RuleViolation'))
        if len(cur) >= 3:
            out.append(V('accepted-exactly-when-allowed', ['wrongly-accepted', op, stage0, 'fourth attempt at a height'], case,
                         {'accepted': enc(call), 'card_before': card}, 'RuleViolation'))
        if not c.heights:
            out.append(V('accepted-exactly-when-allowed', ['wrongly-accepted', op, stage0, 'no bar height yet'], case,
                         {'accepted': enc(call)}, 'RuleViolation'))
    return out, True


def tail_call(c, bibs, draw):
    """Next call of a universal tail: biased towards what the clauses forbid (trials by athletes who retired) and what
    moves a competition on (failures, retirements, bar moves)."""
    retired = [j.bib for j in c.jumpers if 'r' in ''.join(j.attempts_by_height)]
    k = draw(10)
    if retired and k < 3:
        return (TRIALS[draw(len(TRIALS))], retired[draw(len(retired))])
    if k < 5:
        last = Decimal(str(c.heights[-1])) if c.heights else FIRST
        return ('bar', [last + STEP, last, last - STEP, last + 2 * STEP][draw(4)])
    if k == 9 and draw(3) == 0:
        # (late joiners also with the optional keywords of a start-list entry: order, names, category ...)
        return (['add', 'add', 'add:DNS', 'add:DQ', 'add:full', 'add:order', 'add:none'][draw(7)],
                [999 if isinstance(bibs[0], int) else 'Z', bibs[0]][draw(2)])
    op = ['failed', 'failed', 'failed', 'cleared', 'cleared', 'retired', 'retired', 'passed'][draw(8)]
    return (op, bibs[draw(len(bibs))])


def universal_tail(c, bibs, hist_calls, draw, steps, float_heights=False, on_call=None):
    """Continue a history beyond the model's verdicts for `steps` calls.  Returns the violations found."""
    out = []
    calls = list(hist_calls)
    for _ in range(steps):
        call = tail_call(c, bibs, draw)
        vs, acc = universal_call(c, call, calls, bibs, float_heights)
        calls.append(call)
        if on_call:
            on_call(call, vs, acc)
        out.extend(vs)
        if vs:
            break
    return out


def start(bibs, ops=None):
    """A competition with the athletes `bibs` entered; ops[i] = the entry call of athlete i ('add', or 'add:<keywords variant>'
    for an entry made with the optional start-list keywords - no rule mentions them)."""
    c = hjimpl.new_comp()
    m = hjmodel.Model()
    hist = []
    for i, b in enumerate(bibs):
        op = ops[i] if ops and i < len(ops) and str(ops[i]).split(':')[0] == 'add' else 'add'
        hjimpl.apply(c, (op, b))
        m.apply((op, b))
        hist.append((op, b))
    return c, m, hist


def alphabet(c, m, max_reg, max_total):
    """Every call of the alphabet at this state (legal or not); bar calls pruned by the height bounds."""
    calls = []
    nh = len(m.heights)
    in_jo = m.stage == 'jumpoff'
    if (not in_jo and nh < max_reg) or (in_jo and nh < max_total and
                                        (m.first_jo is None or nh - m.first_jo < 3)):
        for h in bar_choices(m.heights):
            calls.append(('bar', h))
    for b in m.order:
        for op in TRIALS:
            calls.append((op, b))
    calls.append(('add', 999 if isinstance(m.order[0], int) else 'Z'))      # a new bib of the competition's own kind
    calls.append(('add', m.order[0]))
    if hjimpl.VIA_TRIAL:
        calls.append(('badtrial', m.order[0]))
        for cell in ('xxo', 'ox', 'xxxx', 'rx', 'xo', 'o-', ''):
            calls.append(('badtrial:' + cell, m.order[len(cell) % len(m.order)]))
    if m.stage != 'scheduled':
        # a late entry carrying the optional keywords of a start-list entry is a late entry all the same
        for v in ('DNS', 'DQ', 'full'):
            calls.append(('add:' + v, 999 if isinstance(m.order[0], int) else 'Z'))
    return calls


def replay(case, on_state=None):
    """Re-execute a stored history from scratch; returns all violations met (plain calls, no generator)."""
    keep = hjimpl.VIA_TRIAL
    hjimpl.VIA_TRIAL = bool(case.get('via_trial'))
    try:
        return _replay(case, on_state)
    finally:
        hjimpl.VIA_TRIAL = keep


def _replay(case, on_state=None):
    c, m, hist = start(case['bibs'], [x[0] for x in case['calls'][:len(case['bibs'])]])
    out = []
    fh = bool(case.get('float_heights'))
    intb = any(isinstance(b, int) for b in case['bibs'])
    universal = False
    issued = list(hist)
    for raw in case['calls'][len(case['bibs']):]:
        call = dec(raw, intb)
        if universal:
            vs, acc = universal_call(c, call, issued, case['bibs'], fh)
            issued.append(call)
            out.extend(vs)
            if vs:
                break
            continue
        vs, status = check_call(c, m, call, hist, None, fh)
        issued.append(call)
        out.extend(vs)
        if status.startswith('truncated'):
            if vs:
                break
            universal = True      # beyond the model's verdicts: the universal clauses still apply
            continue
        if status == 'ok':
            hist.append(call)
            if on_state:
                out.extend(on_state(c, m, hist))
    return out


def _rebuild(bibs, calls):
    """The competition and model after the accepted calls `calls` (plain re-execution, no checks)."""
    c, m, hist = start(bibs)
    for call in calls:
        hjimpl.apply(c, call)
        m.apply(call)
        hist.append(call)
    return c, m, hist


def bfs(bibs, prefix, depth, max_reg, max_total, visit, stats):
    """Enumerate all call sequences (legal or not) to `depth` calls after `prefix`, de-duplicated by state.

    visit(c, m, hist, vs, status, call) is called for every executed call.  The frontier is kept as call lists (a state
    is rebuilt when its turn comes) and the visited set as 64-bit hashes of the state key: memory stays in the hundreds
    of megabytes for millions of states, and the search remains a pure breadth-first one (every state is expanded at
    its minimal depth, so "exhaustive to the depth bound" holds)."""
    c, m, hist = start(bibs)
    for call in prefix:
        vs, status = check_call(c, m, call, hist)
        visit(c, m, hist + [call], vs, status, call)
        if status != 'ok':
            return
        hist.append(call)
    nb = len(bibs)
    frontier = [tuple(hist[nb:])]
    seen = {hash(hjimpl.dedup_key(c))}
    first = (c, m, hist)
    for d in range(depth):
        nxt = []
        for calls in frontier:
            if first is not None:
                c, m, hist = first
                first = None
            else:
                c, m, hist = _rebuild(bibs, calls)
            backup = None
            before = hjimpl.snapshot(c, full=True)
            for call in alphabet(c, m, max_reg, max_total):
                verdict, _ = m.expect(call)
                if verdict == REJECT:
                    # expected refusal: run on the shared object, fall back to a clone if it misbehaves
                    if backup is None:
                        backup = hjimpl.clone(c)
                    vs, status = check_call(c, m, call, hist, before)
                    stats['calls'] += 1
                    visit(c, m, hist + [call], vs, status, call)
                    if status != 'refused':
                        c = hjimpl.clone(backup)
                    continue
                c2 = hjimpl.clone(c)
                m2 = m.copy()
                vs, status = check_call(c2, m2, call, hist, before)
                stats['calls'] += 1
                h2 = hist + [call]
                visit(c2, m2, h2, vs, status, call)
                if status == 'ok':
                    k = hash(hjimpl.dedup_key(c2))
                    if k not in seen:
                        seen.add(k)
                        nxt.append(calls + (call,))     # decided states too: every call must then be refused
                elif status.startswith('truncated'):
                    stats['truncated'][status[10:]] = stats['truncated'].get(status[10:], 0) + 1
        frontier = nxt
        stats['states'] += len(nxt)
        if not frontier:
            break
