#!/bin/sh
# Everything on the committed snapshot: silence at several seeds, then all hand mutants, then all seeded changes.
cd "$(dirname "$0")/.." || exit 2
./setup.sh >/dev/null 2>&1
SEEDS="${SEEDS:-1 2 3}" tools/seeds.sh
echo "=== mutants"
tools/mut.py 2>&1 | grep -v "caught" | tail -40
echo "=== seeded"
for d in seeded/*/; do tools/seedtest.py $d | /venv/bin/python -c "
import json,sys
r=json.load(sys.stdin); print(r['dir'].split('/')[-1], {k:v['verdict'] for k,v in r['props'].items()}, r.get('baseline_passes'), r.get('demo_patched_rc'), r.get('demo_unpatched_rc'))"; done
