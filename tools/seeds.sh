#!/bin/sh
# Run every check's quick tier at several seeds in fresh processes; print one line per run and any alarm.
cd "$(dirname "$0")/.." || exit 2
./setup.sh >/dev/null 2>&1
for s in ${SEEDS:-2 3 4 5 6}; do
  for c in ${CHECKS:-C01 C02 C03 C04 C05 C06 C07 C08 C09 C10 C11 C12 C13 C14 C15 C16 C17 C18 C19}; do
    out=$(VERIF_SEED=$s ./check $c --tier ${TIER:-quick} 2>&1); rc=$?
    echo "seed=$s $c rc=$rc $(echo "$out" | grep -E "^$c (quick|thorough)" | tail -1)"
    if [ $rc -ne 0 ]; then echo "$out" | grep -E "^(violation|VIOLATION|HARNESS)" | cut -c1-400; fi
  done
done
