"""Card-driven plays of complete high-jump competitions (shared by C02, C03, C08).

A play adds 1-4 athletes, plays 1-4 regular heights from drawn cells (a shared per-height script makes ties
frequent), forces the remaining field out, and continues a jump-off for up to 3 heights (bar raised, repeated,
lowered) in which every live participant clears, fails or retires before the bar moves.  With `noise` > 0 an
arbitrary call of the alphabet (usually illegal) is tried before some of the legal calls.  Every call goes through
hjsearch.check_call; `on_call(player, call, vs, status)` sees each one.
"""
from decimal import Decimal

from . import hjimpl, hjmodel, hjsearch
from .hjmodel import ACCEPT

BIBS = ['A', 'B', 'C', 'D']
CELLS = ['o', 'o', 'xo', 'xo', 'xxo', 'xxx', '-', 'x-', 'xx-', 'r', 'xr', 'xxr', '', 'x', 'xx']
OPS = {'o': 'cleared', 'x': 'failed', '-': 'passed', 'r': 'retired'}


class Player(object):
    def __init__(self, n, on_call=None, noise=0, draw=None, max_reg=4, lenient=False, float_heights=False, bibs=None, add_ops=None):
        self.c, self.m, self.hist = hjsearch.start((bibs or BIBS)[:n], add_ops)
        self.add_calls = list(self.hist)
        self.alive = True
        self.on_call = on_call
        self.noise = noise
        self.draw = draw
        self.max_reg = max_reg
        self.lenient = lenient
        self.float_heights = float_heights
        self.calls = 0
        self.all_calls = []      # every call issued, refused ones included
        self.tail = 0            # calls to go on for under the universal clauses once the model stops giving verdicts
        self.tail_calls = 0

    def _run(self, call):
        vs, status = hjsearch.check_call(self.c, self.m, call, self.hist, None, self.float_heights)
        self.calls += 1
        self.all_calls.append(call)
        if status == 'ok':
            self.hist.append(call)
        elif status == 'truncated:refusal-mutated' and self.lenient:
            status = 'refused'        # C02 reports it; other checks go on with the competition as it now is
        elif status in ('truncated:stage', 'truncated:cards', 'truncated:wrongly-accepted') and self.lenient:
            # the implementation accepted the call but disagrees with the model (C02 reports that): the competition
            # as it now stands is still a reachable one for the round-trip checks; the play ends here
            self.hist.append(call)
            self.alive = False
            status = 'diverged'
        elif status != 'refused':
            self.alive = False
            if self.tail and not vs and status.startswith('truncated') and self.draw is not None:
                # the model gives no verdicts from here on: the clauses that hold whatever the jump-off semantics still
                # do, and the history goes on under those alone
                def seen(call_, vs_, acc_):
                    self.tail_calls += 1
                    if self.on_call:
                        self.on_call(self, call_, vs_, 'tail-accepted' if acc_ else 'tail-refused')
                if self.on_call:
                    self.on_call(self, call, vs, status)
                hjsearch.universal_tail(self.c, list(self.m.order), list(self.add_calls) + list(self.all_calls), self.draw, self.tail,
                                        self.float_heights, seen)
                return status
        if self.on_call:
            self.on_call(self, call, vs, status)
        return status

    def try_noise(self):
        if self.noise and self.alive and self.draw(100) < self.noise:
            calls = hjsearch.alphabet(self.c, self.m, self.max_reg, self.max_reg + 3)
            self._run(calls[self.draw(len(calls))])

    def call(self, call):
        """A call the play intends as legal; skipped when the model does not allow it."""
        if not self.alive:
            return False
        self.try_noise()
        if not self.alive or self.m.expect(call)[0] != ACCEPT:
            return False
        return self._run(call) == 'ok'


def play_cards(p, cells, order):
    """Round-robin play of one height: attempt k of each athlete in jumping order."""
    for k in range(3):
        for b in order:
            cell = cells.get(b, '')
            if len(cell) > k:
                p.call((OPS[cell[k]], b))


def finish_regular(p):
    guard = 0
    while p.alive and p.c.state in ('started', 'won') and guard < 4:
        guard += 1
        live = [a.bib for a in p.m.ath.values() if not a.out]
        if not live:
            break
        if all(p.m.ath[b].done for b in live) or not p.m.heights:
            h = (p.m.heights[-1] if p.m.heights else Decimal('0.95')) + hjsearch.STEP
            if not p.call(('bar', h)):
                break
        for b in live:
            for _ in range(3):
                p.call(('failed', b))


def jumpoff(p, draw, max_heights=3):
    rounds = 0
    while p.alive and p.c.state == 'jumpoff' and rounds < max_heights:
        rounds += 1
        last = p.m.heights[-1]
        h = [last + hjsearch.STEP, last, last - hjsearch.STEP, last - 2 * hjsearch.STEP][draw(4)]
        if not p.call(('bar', h)):
            break
        live = [a.bib for a in p.m.ath.values() if a.in_jo and not a.out]
        if draw(2):
            live.reverse()
        for b in live:
            k = draw(20)
            p.call(('cleared' if k < 9 else 'failed' if k < 18 else 'retired', b))
            if p.c.state != 'jumpoff':
                break


INT_BIBS = [7, 12, 101, 5]


ENTRY_OPS = ['add', 'add', 'add:guest', 'add:guest', 'add:full', 'add:order']


def random_play(draw, on_call=None, noise=0, nmin=2, lenient=False, float_heights=False, tail=0, int_bibs=False, entries=False):
    n = nmin + draw(5 - nmin)
    hreg = 1 + draw(4)
    # entries=True: some athletes are entered with the optional start-list keywords (a guest flag, names, an order)
    ops = [ENTRY_OPS[draw(len(ENTRY_OPS))] for _ in range(n)] if entries else None
    p = Player(n, on_call, noise, draw, lenient=lenient, float_heights=float_heights, bibs=INT_BIBS if int_bibs else None, add_ops=ops)
    p.tail = tail
    bibs = (INT_BIBS if int_bibs else BIBS)[:n]
    step = hjsearch.STEP if not float_heights or draw(2) else Decimal('0.01')
    h = Decimal('0.95')
    if float_heights:
        h = Decimal(95 + draw(250)) / 100          # anywhere between 0.95 and 3.44: many values are inexact as floats
    for i in range(hreg):
        if not p.alive or p.c.state not in ('scheduled', 'started', 'won'):
            break
        h += step * (1 + draw(2))
        if not p.call(('bar', h)):
            break
        script = 'o' if i == 0 and draw(3) else CELLS[draw(len(CELLS))]
        cells = {}
        for b in bibs:
            cells[b] = script if draw(10) < 6 else CELLS[draw(len(CELLS))]
        order = list(bibs)
        if draw(2):
            order.reverse()
        play_cards(p, cells, order)
    finish_regular(p)
    jumpoff(p, draw)
    if noise and p.alive:
        for _ in range(3):       # calls after the decision must all be refused
            p.noise, keep = 100, p.noise
            p.try_noise()
            p.noise = keep
    return p


def multiway_jumpoff_play(draw, on_call=None, noise=0, tail=0, entries=False):
    """A scripted family the random plays reach only now and then: 3-4 athletes tie for first, a jump-off round separates
    some of them (at least one clears, at least one fails), and in the following rounds the survivors clear, fail or - often -
    retire.  Every call still goes through the model (hjsearch.check_call)."""
    n = 3 + draw(2)
    ops = [ENTRY_OPS[draw(len(ENTRY_OPS))] for _ in range(n)] if entries else None
    p = Player(n, on_call, noise, draw, add_ops=ops)
    p.tail = tail
    bibs = BIBS[:n]
    h = Decimal('1.00')
    p.call(('bar', h))
    shared = ['o', 'xo', 'xxo'][draw(3)]
    for k in range(3):
        for b in bibs:
            if len(shared) > k:
                p.call((OPS[shared[k]], b))
    h += hjsearch.STEP
    p.call(('bar', h))
    for _ in range(3):
        for b in bibs:
            p.call(('failed', b))
    rounds = 0
    first = True
    while p.alive and p.c.state == 'jumpoff' and rounds < 4:
        rounds += 1
        last = p.m.heights[-1]
        nh = [last + hjsearch.STEP, last, last - hjsearch.STEP, last - 2 * hjsearch.STEP][draw(4)]
        if not p.call(('bar', nh)):
            break
        live = [a.bib for a in p.m.ath.values() if a.in_jo and not a.out]
        if draw(2):
            live.reverse()
        if first and len(live) >= 2:
            # the separating round: one surely clears, one surely fails, the others as drawn
            outcome = {live[0]: 'cleared', live[1]: 'failed'}
            for b in live[2:]:
                outcome[b] = ['cleared', 'failed'][draw(2)]
            first = False
        else:
            outcome = {b: ['cleared', 'failed', 'failed', 'retired', 'retired'][draw(5)] for b in live}
        for b in live:
            p.call((outcome[b], b))
            if p.c.state != 'jumpoff':
                break
    return p
