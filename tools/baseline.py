#!/venv/bin/python
"""Run the repository's pinned suite (guard off) and compare with BASELINE.json's stable_pass list."""
import json, os, subprocess, sys, tempfile
import xml.etree.ElementTree as ET
base = json.load(open('/root/.vp/BASELINE.json'))
repo = sys.argv[1] if len(sys.argv) > 1 else '/repo'
fd, xml = tempfile.mkstemp(suffix='.xml', dir='/dev/shm'); os.close(fd)
env = dict(os.environ); env.pop('ATHLIB_VERIF', None); env.pop('PYTHONPATH', None)
if repo != '/repo': env['PYTHONPATH'] = repo   # scratch copies: make sure the copy, not the editable install, is imported
p = subprocess.run(['/venv/bin/python', '-m', 'pytest', '-ra', '-q', '-p', 'no:cacheprovider', '--timeout=900',
                    '--continue-on-collection-errors', '--junitxml=' + xml], cwd=repo, env=env,
                   stdout=subprocess.PIPE, stderr=subprocess.STDOUT, text=True)
passed = set()
for tc in ET.parse(xml).getroot().iter('testcase'):
    if not any(c.tag in ('failure', 'error', 'skipped') for c in tc):
        passed.add('%s::%s' % (tc.get('classname'), tc.get('name')))
os.unlink(xml)
missing = [t for t in base['stable_pass'] if t not in passed]
print('baseline: %d/%d stable tests pass' % (len(base['stable_pass']) - len(missing), len(base['stable_pass'])))
for m in missing: print('  MISSING', m)
sys.exit(1 if missing else 0)
