"""C02 — high jump: only rule-conforming trials are recorded; refusals change nothing."""
import itertools
from decimal import Decimal

import hypothesis
from hypothesis import settings, strategies as st, HealthCheck, Phase
from hypothesis.stateful import RuleBasedStateMachine, rule, precondition, initialize, run_state_machine_as_test

from vlib import hjimpl, hjmodel, hjsearch, hjplay
from vlib.harness import V, derive_seed, run_shards
from vlib.hjmodel import ACCEPT, REJECT, UNSPEC, LEVEL, TRIALS

PROPERTY = 'C02'
AMBIENT_PASS = 'quick'       # the same search once more under unusual ambient settings (vlib.run.AMBIENT_SETTINGS)
RULE = ('call histories over {add(bib), bar(up/equal/down by 0.05), cleared, failed, passed, retired} x every bib, legal or '
        'not: (i) breadth-first enumeration of ALL call sequences to a depth bound from the state after adding n athletes, '
        'de-duplicated by full internal state (n=2: depth 9 quick / 11 thorough, n=3: 6 / 8, n=1 and n=4 shallower; at most 4 '
        'regular + 3 jump-off heights); (ii) long histories: card-driven plays of complete competitions (1-4 athletes, up '
        'to 4 regular + 3 jump-off heights, ties made frequent by a shared per-height script) with arbitrary - usually illegal - '
        'calls injected before ~20 % of the legal ones and after the decision, generated in bulk and as a Hypothesis '
        'RuleBasedStateMachine (rules: regular height, force the field out, jump-off round, arbitrary call); oracle = independent reference model of the rules (must-accept / '
        'must-reject / unspecified), exact RuleViolation, full-snapshot equality after a refusal, card and stage equality '
        'after an acceptance, stage level monotone; non-trivial = a history with a refused call outside "scheduled" AND one '
        'of: elimination by 3 consecutive failures across two heights, a refused attempt after a pass, a retirement, a '
        'jump-off re-instatement; distinct by final state')
ASSUMPTIONS = ['where the property is silent (a pass inside a jump-off, moving the jump-off bar before every live participant '
               'has attempted or retired, a competition in which nobody clears anything) the implementation\'s answer is '
               'accepted and the history is cut there (counted as truncated:*)',
               'unknown bibs are not part of the alphabet (the property quantifies over the competition\'s bibs)']
RULE = RULE + '; late and duplicate entries also with the optional start-list keywords (order=DNS / DQ, names, category); one play in five records its trials through bib_trial(bib, letter), with unknown letters among the forbidden calls; where the reference model stops giving verdicts (pass in a jump-off, bar moved early, nobody cleared anything) plays and machine runs continue for 25-40 calls under the universal clauses only (no trial after retiring / clearing / passing / a fourth attempt, nothing after finished or drawn, stage never regresses, refusals change nothing)'

BIBS = ['A', 'B', 'C', 'D']


def examine(case):
    return hjsearch.replay(case)


def shrink(bucket):
    """ddmin over the calls of the history (the athletes' add calls stay): drop calls while the same signature fails."""
    case = bucket['case']
    sig = bucket['sig']
    if case.get('kind') != 'history':
        return None
    calls = list(case['calls'])
    n = len(case['bibs'])
    extra = {k: v for k, v in case.items() if k not in ('calls',)}

    def fails(cs):
        return any(v['sig'] == sig for v in examine(dict(extra, calls=cs)))
    changed = True
    budget = 4000
    while changed and budget > 0:
        changed = False
        for i in range(len(calls) - 1, n - 1, -1):
            budget -= 1
            t = calls[:i] + calls[i + 1:]
            if fails(t):
                calls = t
                changed = True
                break
    if len(calls) < len(case['calls']):
        v = [v for v in examine(dict(extra, calls=calls)) if v['sig'] == sig][0]
        return {'case': v['case'], 'observed': v['observed']}
    return None


def nontrivial_features(hist, m):
    """Features of a history used by the non-triviality rule."""
    f = set()
    for a in m.ath.values():
        if a.retired:
            f.add('retirement')
        if a.in_jo:
            f.add('jumpoff')
        cells = a.card
        for i in range(1, len(cells)):
            if cells[i].startswith('x') and cells[i - 1].rstrip('-').endswith('x') and \
                    (cells[i - 1] + cells[i]).replace('-', '').endswith('xxx'):
                f.add('elimination-across-heights')
        if any('-' in c for c in cells):
            f.add('pass')
    return f


class Visitor(object):
    def __init__(self, ctx):
        self.ctx = ctx
        self.refused_outside_scheduled = {}

    def __call__(self, c, m, hist, vs, status, call):
        ctx = self.ctx
        ctx.count()
        if vs:
            ctx.violations(vs)
        ctx.label('call-' + status.split(':')[0])
        if status == 'refused' and m.stage != 'scheduled':
            feats = nontrivial_features(hist, m)
            if feats:
                key = hjimpl.dedup_key(c) + (hjsearch.enc(call)[0],)
                ctx.nontrivial(hash(key), {'history': [hjsearch.enc(x) for x in hist], 'refused_last_call': True,
                                           'stage': m.stage, 'features': sorted(feats)}
                               if len(ctx.nt_keys) % 20000 == 1 else None)


def shard_bfs(ctx, payload):
    n, prefix, depth, max_reg = payload
    stats = {'calls': 0, 'states': 0, 'truncated': {}}
    hjsearch.bfs(BIBS[:n], [hjsearch.dec(x) for x in prefix], depth, max_reg, max_reg + 3, Visitor(ctx), stats)
    ctx.extra['bfs_states'] = stats['states']
    ctx.extra['bfs_truncated'] = stats['truncated']
    ctx.label('bfs-n%d' % n, stats['calls'])


def bfs_payloads(ctx, n, depth, max_reg, split=3):
    """The first `split` levels are explored here (every call, legal or not); each state reached by an accepted
    prefix becomes a shard that continues the breadth-first search to the full depth."""
    split = min(split, depth)
    prefixes = []

    class V2(Visitor):
        def __call__(self, c, m, hist, vs, status, call):
            Visitor.__call__(self, c, m, hist, vs, status, call)
            if status == 'ok' and len(hist) == n + split:
                prefixes.append([hjsearch.enc(x) for x in hist[n:]])
    stats = {'calls': 0, 'states': 0, 'truncated': {}}
    hjsearch.bfs(BIBS[:n], [], split, max_reg, max_reg + 3, V2(ctx), stats)
    seen = set()
    out = []
    for p in prefixes:
        if repr(p) not in seen:
            seen.add(repr(p))
            out.append((n, p, depth - split, max_reg))
    return out


# ---------------------------------------------------------------------------------------------
# long histories: card-driven plays with injected arbitrary calls, bulk and as a Hypothesis state machine

def make_on_call(ctx):
    def on_call(p, call, vs, status):
        ctx.count()
        ctx.label('play-call-' + status.split(':')[0])
        if vs:
            ctx.violations(vs)
        if status == 'refused':
            if p.m.stage != 'scheduled':
                feats = nontrivial_features(p.hist, p.m)
                if feats:
                    ctx.nontrivial(hash(hjimpl.dedup_key(p.c) + (call[0],)),
                                   {'history': [hjsearch.enc(x) for x in p.hist] + [hjsearch.enc(call)],
                                    'refused_last_call': True, 'stage': p.m.stage, 'features': sorted(feats)}
                                   if len(ctx.nt_keys) % 4000 == 2 else None)
                    for f in feats:
                        ctx.label('refusal-with-' + f)
                    ctx.label('refusal-in-' + p.m.stage)
        elif status != 'ok':
            ctx.label('play-' + status)
    return on_call


def shard_plays(ctx, payload):
    import random
    n = payload
    rng = random.Random(derive_seed(ctx.seed, 'C02-plays', ctx.shard))
    on_call = make_on_call(ctx)
    for i in range(n):
        # one play in six hands the bar heights over as floats (1 cm and 5 cm steps): callers do, and 2.01 is not
        # exactly representable - the rules are about the heights, not about their binary representation
        fh = (i % 6 == 5)
        ib = (i % 8 == 3)           # one play in eight uses numbers as bibs (start lists usually do)
        # one play in five records clearances, failures and retirements through the card-letter entry point bib_trial
        hjimpl.VIA_TRIAL = (i % 5 == 2)
        try:
            en = (i % 4 == 1)          # one play in four: entries made with the optional start-list keywords
            hjplay.random_play(rng.randrange, on_call, noise=20, nmin=1, float_heights=fh, tail=40, int_bibs=ib, entries=en)
            if en:
                ctx.label('play-entries-with-start-list-keywords')
        finally:
            if hjimpl.VIA_TRIAL:
                ctx.label('play-via-bib_trial')
            hjimpl.VIA_TRIAL = False
        ctx.label('play-float-heights' if fh else 'play')
        if ib:
            ctx.label('play-number-bibs')


def shard_multiway(ctx, payload):
    import random
    n = payload
    rng = random.Random(derive_seed(ctx.seed, 'C02-multiway', ctx.shard))
    on_call = make_on_call(ctx)
    for i in range(n):
        hjplay.multiway_jumpoff_play(rng.randrange, on_call, noise=10 if i % 2 else 0, tail=25, entries=(i % 3 == 0))
        ctx.label('play-multiway-jumpoff')


def make_machine(ctx):
    on_call = make_on_call(ctx)

    class HighJumpMachine(RuleBasedStateMachine):
        """Rules are the moves of a competition official; every call inside them is checked against the model."""

        def __init__(self):
            super().__init__()
            self.p = None

        @initialize(n=st.integers(1, 4), noise=st.sampled_from([0, 10, 30]), data=st.data())
        def setup(self, n, noise, data):
            self.data = data
            self.p = hjplay.Player(n, on_call, noise, lambda k: data.draw(st.integers(0, k - 1)))
            self.p.tail = 25
            ctx.label('machine')

        def _draw(self, data):
            return lambda k: data.draw(st.integers(0, k - 1))

        @precondition(lambda self: self.p is not None and self.p.alive and
                      self.p.c.state in ('scheduled', 'started', 'won') and len(self.p.m.heights) < 4)
        @rule(data=st.data())
        def regular_height(self, data):
            draw = self._draw(data)
            p = self.p
            p.draw = draw
            last = p.m.heights[-1] if p.m.heights else hjsearch.FIRST - hjsearch.STEP
            if not p.call(('bar', last + hjsearch.STEP * (1 + draw(2)))):
                return
            bibs = list(p.m.order)
            script = hjplay.CELLS[draw(len(hjplay.CELLS))]
            cells = {b: (script if draw(10) < 6 else hjplay.CELLS[draw(len(hjplay.CELLS))]) for b in bibs}
            if draw(2):
                bibs.reverse()
            hjplay.play_cards(p, cells, bibs)

        @precondition(lambda self: self.p is not None and self.p.alive and self.p.c.state in ('started', 'won'))
        @rule(data=st.data())
        def force_field_out(self, data):
            self.p.draw = self._draw(data)
            hjplay.finish_regular(self.p)

        @precondition(lambda self: self.p is not None and self.p.alive and self.p.c.state == 'jumpoff')
        @rule(data=st.data())
        def jumpoff_round(self, data):
            self.p.draw = self._draw(data)
            hjplay.jumpoff(self.p, self.p.draw, max_heights=1)

        @rule(data=st.data())
        def arbitrary_call(self, data):
            p = self.p
            if p is None or not p.alive:
                return
            calls = hjsearch.alphabet(p.c, p.m, 4, 7)
            p._run(calls[data.draw(st.integers(0, len(calls) - 1))])
    return HighJumpMachine


def shard_machine(ctx, payload):
    n_runs, steps = payload
    Machine = make_machine(ctx)
    seeded = hypothesis.seed(derive_seed(ctx.seed, 'C02-machine', ctx.shard))(Machine)
    run_state_machine_as_test(seeded, settings=settings(
        max_examples=n_runs, stateful_step_count=steps, deadline=None, database=None,
        suppress_health_check=list(HealthCheck), phases=[Phase.generate]))


def run(ctx):
    thorough = ctx.tier == 'thorough'
    payloads = []
    plan = [(1, 8, 3), (2, 11, 4), (3, 8, 3), (4, 6, 2)] if thorough else [(1, 7, 3), (2, 9, 4), (3, 6, 3), (4, 5, 2)]
    for n, depth, max_reg in plan:
        payloads += bfs_payloads(ctx, n, depth, max_reg)
    ctx.extra['bfs_plan'] = ['n=%d depth=%d regular_heights<=%d' % p for p in plan]
    run_shards(ctx, 'checks.c02', 'shard_bfs', payloads, disjoint=False)
    run_shards(ctx, 'checks.c02', 'shard_plays', [15000 if thorough else 1000] * 16, disjoint=False)
    run_shards(ctx, 'checks.c02', 'shard_multiway', [3000 if thorough else 250] * 16, disjoint=False)
    run_shards(ctx, 'checks.c02', 'shard_machine', [(1500 if thorough else 60, 12)] * 16, disjoint=False)
