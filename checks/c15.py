"""C15 — WMA interpolation between distances is order-preserving."""
import json
import math
import os
import random

import athlib
from vlib.harness import V, derive_seed, run_shards, REPO
from vlib.lib import call

PROPERTY = 'C15'
AMBIENT_PASS = True        # the same search once more under unusual ambient settings (vlib.run.AMBIENT_SETTINGS)
RULE = ('non-tabulated running distances as bare numbers (every whole metre 20..12 000 in thorough / stride 5 in quick, then '
        'stride 7 (thorough) / 61 (quick) to 400 000 m, plus +-3 m around every tabulated distance and beyond both ends) and as '
        'road spellings N[.dd]K and N[.dd]M over the same range; x gender x ages {5, 9, 13, 14, 19.5, 35, 47.25, 50, 61.75, 72.5, 83.1, 90, 100, 104} x table years 2015 and '
        '2023; oracle: brackets taken from the JSON km column independently of the library\'s scan (S / L = all running rows at '
        'the greatest tabulated distance below / smallest above): factor within [min f(S+L) - 1e-4, max f(S+L) + 1e-4], open best '
        'within [min best(S+L), max best(S+L)] and strictly increasing with distance over consecutive generated distances; '
        'beyond either end: no exception, factor = the end row\'s factor, best finite and positive; non-trivial = a distance '
        'within 60 m of a tabulated one, inside the track->road seam (8 000-10 000 m) or beyond either end; distinct (year, '
        'gender, distance)')
RULE = RULE + "; ages {5, 9, 13, 14, 19.5, 35 ... 104} wherever the tabulated neighbours have a factor; a tabulated distance in another spelling must come out at the rows of that distance (1e-9); a shorter-than-all distance at the shortest run's open best"
ASSUMPTIONS = ['the distance a code denotes is computed by the check (N m, 1000 N m for K, 1609 N m for M), not taken from get_distance',
               '1e-4 (the tables\' resolution) absorbs the 1 609 m vs 1 609.344 m mile used by get_distance',
               'the factor of the bracketing tabulated rows is obtained through the public function (decided by C14)']
RULE = RULE + '; track distances in yards (N Y / N y, 1 yd = 0.9144 m); every whole kilometre / mile also written N.0 / N.00; ages include 47.25, 61.75, 83.1; interleaved histories include tabulated, field and raising calls'

AGES = [5, 9, 13, 14, 19.5, 35, 47.25, 50, 61.75, 72.5, 83.1, 90, 100, 104]      # across the table: whole, half and other fractional ages
_tab = {}


def running_rows(year, g):
    key = (year, g)
    if key not in _tab:
        with open(os.path.join(REPO, 'athlib', 'wma', 'wma-data-%s.json' % year), encoding='utf-8') as f:
            d = json.load(f)
        rows = d[g]
        start = [r[0] for r in rows].index('50')
        _tab[key] = [(r[0], r[1], r[2]) for r in rows[start:]]      # (code, km, open best)
    return _tab[key]


def brackets(year, g, metres):
    rows = running_rows(year, g)
    km = metres / 1000.0
    below = [r for r in rows if r[1] < km]
    above = [r for r in rows if r[1] > km]
    same = [r for r in rows if r[1] == km]
    S = [r for r in below if r[1] == max(x[1] for x in below)] if below else []
    L = [r for r in above if r[1] == min(x[1] for x in above)] if above else []
    return S, L, same


_fcache = {}


def row_factor(year, g, age, code):
    k = (year, g, age, code)
    if k not in _fcache:
        _fcache[k] = call(athlib.wma_age_factor, g, age, code, year=year)
    return _fcache[k]


def examine(case):
    year, g, code = case['year'], case['g'], case['code']
    metres = case.get('metres')
    if metres is None:
        dm = call(athlib.get_distance, code)
        if dm[0] == 'exc' or not dm[1]:
            return []
        metres = dm[1]
    S, L, same = brackets(year, g, metres)
    if code.upper() in [r[0] for r in running_rows(year, g)]:
        return []          # tabulated itself: C14's business
    if same:
        # a tabulated distance in another spelling ('0.6K' for the 600 m row): not a row of the table, so it is interpolated -
        # and must come out at (between) the rows of exactly that distance
        out = []
        b = call(athlib.wma_world_best, g, code, year=year)
        lo, hi = min(r[2] for r in same), max(r[2] for r in same)
        if b[0] == 'exc':
            out.append(V('best-defined', ['best-raises', b[1], 'at-tabulated-distance'], case, b[:3]))
        elif not (isinstance(b[1], (int, float)) and lo * (1 - 1e-9) <= b[1] <= hi * (1 + 1e-9)):
            out.append(V('best-between-neighbours', ['best-outside-bracket', 'at-tabulated-distance'], case, b[1],
                         [(r[0], r[2]) for r in same]))
        for age in case.get('ages', AGES):
            refs = [row_factor(year, g, age, r[0]) for r in same]
            if any(r[0] == 'exc' for r in refs):
                continue
            f = call(athlib.wma_age_factor, g, age, code, year=year)
            vals = [r[1] for r in refs]
            if f[0] == 'exc' or not (min(vals) - 1e-9 <= f[1] <= max(vals) + 1e-9):
                out.append(V('factor-between-neighbours', ['factor-outside-bracket', 'at-tabulated-distance'], dict(case, age=age),
                             f[:3], dict(zip([r[0] for r in same], vals))))
                break
        return out
    out = []
    where = 'below-table' if not S else 'above-table' if not L else 'inside'
    # open best
    b = call(athlib.wma_world_best, g, code, year=year)
    if b[0] == 'exc':
        out.append(V('best-defined', ['best-raises', b[1], where], case, b[:3]))
    else:
        bv = b[1]
        if not isinstance(bv, (int, float)) or not math.isfinite(bv) or bv <= 0:
            out.append(V('best-defined', ['best-not-finite-positive', where], case, bv))
        elif where == 'below-table':
            # "use the nearest end of the table": the shortest run's open best (what the library's own test pins for 42 m)
            end = min(r[2] for r in L)
            if abs(bv - end) > end * 1e-9:
                out.append(V('ends-use-nearest-row', ['best-not-end-row', where], case, bv, end))
        elif where == 'inside':
            lo = min(r[2] for r in S + L)
            hi = max(r[2] for r in S + L)
            if not (lo <= bv <= hi):
                out.append(V('best-between-neighbours', ['best-outside-bracket'], case, bv,
                             {'below': [(r[0], r[2]) for r in S], 'above': [(r[0], r[2]) for r in L]}))
    for age in case.get('ages', AGES):
        # an age counts where the tabulated neighbours themselves have a factor for it ("ages across the table")
        refs = [row_factor(year, g, age, r[0]) for r in (S + L)]
        if any(r[0] == 'exc' for r in refs):
            continue
        f = call(athlib.wma_age_factor, g, age, code, year=year)
        c2 = dict(case, age=age)
        if f[0] == 'exc':
            out.append(V('factor-defined', ['factor-raises', f[1], where], c2, f[:3]))
            break
        fv = f[1]
        if not isinstance(fv, (int, float)) or not math.isfinite(fv) or fv <= 0:
            out.append(V('factor-defined', ['factor-not-finite-positive', where], c2, fv))
            break
        vals = [r[1] for r in refs]
        if where == 'inside':
            if not (min(vals) - 1e-9 <= fv <= max(vals) + 1e-9):
                out.append(V('factor-between-neighbours', ['factor-outside-bracket'], c2, fv,
                             dict(zip([r[0] for r in S + L], vals))))
                break
        else:
            if not any(abs(fv - v) <= 1e-12 for v in vals):
                out.append(V('ends-use-nearest-row', ['factor-not-end-row', where], c2, fv,
                             dict(zip([r[0] for r in S + L], vals))))
                break
    return out


def examine_order(case):
    """Two consecutive generated distances: the longer one has the strictly greater open best."""
    year, g = case['year'], case['g']
    a = call(athlib.wma_world_best, g, case['shorter'], year=year)
    b = call(athlib.wma_world_best, g, case['longer'], year=year)
    if a[0] == 'ret' and b[0] == 'ret' and not a[1] < b[1]:
        return [V('best-increases-with-distance', ['best-order'], case, [a[1], b[1]])]
    return []


def examine_any(case):
    return examine_order(case) if case.get('kind') == 'order' else examine(case)


def distances(thorough, rng):
    s = set()
    s.update(range(20, 12001, 1 if thorough else 5))
    s.update(range(12000, 400001, 7 if thorough else 61))
    s.update([5, 10, 19, 30, 45, 49, 51, 250000, 300000, 399999, 400000, 450000, 999000])
    for year in (2015, 2023):
        for g in 'mf':
            for code, km, best in running_rows(year, g):
                m = int(round(km * 1000))
                for d in range(-3, 4):
                    if m + d > 0:
                        s.add(m + d)
                for d in (-60, -30, 30, 60):
                    if m + d > 0:
                        s.add(m + d)
    return sorted(s)


def nontrivial(year, g, metres):
    rows = running_rows(year, g)
    if any(abs(metres - r[1] * 1000) <= 60 for r in rows):
        return True
    if 8000 <= metres <= 10000:
        return True
    return metres < min(r[1] for r in rows) * 1000 or metres > max(r[1] for r in rows) * 1000


def shard(ctx, payload):
    year, g, kind, thorough, part, nparts = payload
    rng = random.Random(derive_seed(ctx.seed, 'C15', year, g, kind))
    ds = distances(thorough, rng)
    if kind == 'bare':
        codes = [(d, str(d)) for d in ds]
    elif kind == 'K':
        codes = []
        for d in ds:
            if d % 10 == 0 and d < 1000000:
                k = d / 1000.0
                txt = ('%.2f' % k).rstrip('0').rstrip('.') if d % 1000 else '%d' % (d // 1000)
                if len(txt.split('.')[0]) <= 3:
                    codes.append((d, txt + 'K'))
                    # the same distance with its decimals written out: 60.0K, 60.00K, 9.50K
                    if '.' not in txt:
                        codes.append((d, txt + '.0K'))
                        codes.append((d, txt + '.00K'))
                    elif len(txt.split('.')[1]) == 1:
                        codes.append((d, txt + '0K'))
    elif kind == 'Y':
        # track distances in yards (1 yd = 0.9144 m): every whole yard from 20 to 12 000, both letter cases
        codes = []
        for y in range(20, 12001, 1 if thorough else 3):
            codes.append((int(y * 0.9144), '%d%s' % (y, 'Yy'[y % 2])))
    else:
        codes = []
        for cm in range(1, 25001, 1 if thorough else 7):       # hundredths of a mile up to 250 miles
            txt = ('%.2f' % (cm / 100.0)).rstrip('0').rstrip('.')
            codes.append((int(1609 * cm / 100.0), txt + 'M'))
            if '.' not in txt:
                codes.append((int(1609 * cm / 100.0), txt + '.0M'))
                codes.append((int(1609 * cm / 100.0), txt + '.00M'))
    if kind == 'K':
        # every whole kilometre up to 400 km in all three spellings, whatever the tier's stride
        extra = [(n * 1000, '%d%sK' % (n, sfx)) for n in range(1, 401) for sfx in ('', '.0', '.00')]
        codes = sorted(set(codes + extra))
    elif kind == 'M':
        extra = [(int(1609 * n), '%d%sM' % (n, sfx)) for n in range(1, 251) for sfx in ('', '.0', '.00')]
        codes = sorted(set(codes + extra))
    chunk = -(-len(codes) // nparts)
    codes = codes[part * chunk:(part + 1) * chunk + 1]      # contiguous, one code of overlap for the order clause
    prev = None
    for metres, code in codes:
        case = {'year': year, 'g': g, 'code': code, 'metres': metres}     # the distance the code denotes
        ctx.count()
        vs = examine(case)
        if vs:
            ctx.violations(vs)
        m = metres
        if m and nontrivial(year, g, m):
            ctx.nontrivial((year, g, m, kind), case if len(ctx.nt_keys) % 5000 == 3 else None)
        # order of open bests over consecutive generated distances (skip equal distances)
        rows = running_rows(year, g)
        lo_m, hi_m = min(r[1] for r in rows) * 1000, max(r[1] for r in rows) * 1000
        S_, L_, same_ = brackets(year, g, m) if m else ([], [], [1])
        tabulated = bool(same_) or code.upper() in [r[0] for r in rows]
        if prev is not None and m and not tabulated and m > prev[0] and lo_m <= prev[0] and m <= hi_m:
            oc = {'kind': 'order', 'year': year, 'g': g, 'shorter': prev[1], 'longer': code}
            vs = examine_order(oc)
            ctx.count()
            if vs:
                ctx.violations(vs)
        if m and not tabulated:
            prev = (m, code)          # only non-tabulated distances take part in the order clause
    ctx.label('codes-' + kind, len(codes))


def examine_history(case):
    """Steps asked one after the other from a freshly reset state; the last step is judged."""
    from checks.c14 import reset_graders
    reset_graders()
    _fcache.clear()
    out = []
    for step in case['steps']:
        if 'noise' in step:
            run_noise(step)
            continue
        out = examine_point(step)
    for v in out:
        v['sig'] = v['sig'] + ['after-other-lookups']
        v['case'] = case
    return out


def run_noise(step):
    """An unrelated call between two judged lookups: a tabulated event, a field event, or a call that raises."""
    fn, g, age, code, year = step['noise']
    if fn == 'best':
        return call(athlib.wma_world_best, g, code, year=year)
    if fn == 'grade':
        return call(athlib.wma_age_grade, g, age, code, 1000.0, year=year)
    return call(athlib.wma_age_factor, g, age, code, year=year)


NOISE_CODES = ['5K', 'MAR', '10000', 'HJ', 'SP', '3000SC', 'NOPE', '', '7.5K', '0', 'mile', '100H',
               # walks, tabulated and not (another section of the table), hurdles and steeplechase distances that are not rows
               '3000W', '5000W', '12KW', '20KW', '1500W', '3KW', '50KW', '7000W', '300H', '2000SC', '1500SC', '4x400']


def shard_mixed(ctx, payload):
    """History independence: the same odd distances are asked from BOTH table years, both genders and several ages in one
    process, in seeded shuffled segments of <= 40 lookups from a reset state; each answer is still judged by the bracket
    oracle of its own table."""
    from checks.c14 import reset_graders
    n = payload
    rng = random.Random(derive_seed(ctx.seed, 'C15-mixed', ctx.shard))
    pool = [250, 700, 1234, 4500, 7000, 8047, 9000, 11000, 12345, 17000, 23456, 31000, 45000, 60000, 120000, 180000]
    done = 0
    while done < n:
        reset_graders()
        _fcache.clear()
        seg = []
        codes = rng.sample(pool, 5)
        for _ in range(40):
            if rng.randrange(5) == 0:
                # tabulated / field events and calls that raise (unknown event, gender, age) in between
                seg.append({'noise': [rng.choice(['best', 'grade', 'factor']), rng.choice(['m', 'f', 'm', 'f', 'x', '']),
                                      rng.choice([35, 50, 72.5, 3, -1]), rng.choice(NOISE_CODES), rng.choice([2015, 2023])]})
                run_noise(seg[-1])
                continue
            m = rng.choice(codes) if rng.randrange(4) else rng.randrange(60, 190000)
            step = {'year': rng.choice([2015, 2023]), 'g': rng.choice('mf'), 'code': str(m), 'metres': m,
                    'ages': [rng.choice(AGES)]}
            seg.append(step)
            ctx.count()
            done += 1
            vs = examine_point(step)
            if vs:
                for v in vs:
                    v['sig'] = v['sig'] + ['after-other-lookups']
                    v['case'] = {'kind': 'history', 'steps': list(seg)}
                ctx.violations(vs)
                break
    ctx.label('interleaved-history-lookups', done)


def own_metres(code):
    """The distance a row code denotes, by the customary meaning of the spelling (1 mile = 1609.344 m); None when the code
    names no distance (XC, walks and hurdles are other rows)."""
    import re as _re
    c = code.upper()
    if c == 'MAR':
        return 42195.0
    if c == 'HM':
        return 21097.5
    if c == 'MILE':
        return 1609.344
    m = _re.match(r'^(\d+(?:\.\d+)?)(K|M|MT)?$', c)
    if not m:
        return None
    q = float(m.group(1))
    return q * {None: 1.0, 'K': 1000.0, 'M': 1609.344, 'MT': 1609.344}[m.group(2)]


def examine_row(case):
    """The table's own distance column agrees with the distance the row's code denotes (the brackets of every other clause
    are taken from that column)."""
    rows = running_rows(case['year'], case['g'])
    out = []
    for code, km, best in rows:
        if code != case['code']:
            continue
        want = own_metres(code)
        if want and abs(km * 1000.0 - want) > 0.002 * want:
            out.append(V('factor-between-neighbours', ['table-distance-column', 'differs-from-the-code'], case, km, want / 1000.0))
    return out


def run(ctx):
    thorough = ctx.tier == 'thorough'
    for year in (2015, 2023):
        for g in 'mf':
            for code, km, best in running_rows(year, g):
                ctx.count()
                ctx.label('table-rows')
                ctx.violations(examine_row({'kind': 'row', 'year': year, 'g': g, 'code': code}))
    run_shards(ctx, 'checks.c15', 'shard_mixed', [12000 if thorough else 1500] * 16, disjoint=False)
    payloads = []
    nparts = 8 if thorough else 2
    for year in (2015, 2023):
        for g in 'mf':
            for kind in ('bare', 'K', 'M', 'Y'):
                for part in range(nparts):
                    payloads.append((year, g, kind, thorough, part, nparts))
    run_shards(ctx, 'checks.c15', 'shard', payloads, disjoint=True)


examine_point = examine


def examine(case):   # noqa: F811  (replay entry point dispatches on the case shape)
    if case.get('kind') == 'row':
        return examine_row(case)
    if case.get('kind') == 'history':
        return examine_history(case)
    return examine_order(case) if case.get('kind') == 'order' else examine_point(case)


def shrink(bucket):
    case = bucket['case']
    if case.get('kind') != 'history':
        return None
    sig = bucket['sig']
    steps = list(case['steps'])

    def fails(st):
        return any(v['sig'] == sig for v in examine_history({'kind': 'history', 'steps': st}))
    if not fails(steps):
        return None
    i = 0
    while i < len(steps) - 1:
        t = steps[:i] + steps[i + 1:]
        if fails(t):
            steps = t
        else:
            i += 1
    v = [v for v in examine_history({'kind': 'history', 'steps': steps}) if v['sig'] == sig][0]
    return {'case': v['case'], 'observed': v['observed']}
