"""C03 — high jump: final placings follow the countback rule and the jump-off result."""
import itertools
import random
from decimal import Decimal

import hypothesis
from hypothesis import given, settings, strategies as st, HealthCheck, Phase

from vlib import hjimpl, hjmodel, hjsearch, hjplay
from vlib.harness import V, derive_seed, run_shards
from vlib.hjmodel import ACCEPT, LEVEL

PROPERTY = 'C03'
AMBIENT_PASS = 'quick'       # the same search once more under unusual ambient settings (vlib.run.AMBIENT_SETTINGS)
RULE = ('complete competitions: (i) every decided state (finished / won / drawn) met by a breadth-first enumeration of all '
        'call sequences (n=2 depth 9/10, n=3 depth 6/8); (ii) card-driven plays: 2-4 athletes x 1-4 regular heights, each '
        'cell drawn from the legal attempt strings (o xo xxo xxx - x- xx- r xr xxr and empty; a shared per-height script '
        'makes ties frequent), played round-robin in a drawn jumping order, the field then forced out, and on a jump-off up to '
        '3 further heights each raised / repeated / lowered in which every live participant clears, fails or retires before '
        'the bar moves; thorough additionally enumerates the card space of 2 athletes x 3 heights and 3 athletes x 2 heights '
        'completely with all jump-off continuations of up to 2 heights; oracle = validity predicate computed from the cards '
        'alone (countback key on the regular columns, standard competition ranking, ties share a place, no tie for first left '
        'standing, jump-off survivor first and participants ahead of the rest, best = greatest height cleared); '
        'non-trivial = a decided competition whose countback needs level 2 or 3, or that carries failures across a pass, or '
        'that went through a jump-off; distinct by (cards, heights)')
RULE = RULE + '; one play in three reads the card / rankings / trial list after every call, one in three tries forbidden calls between the legal ones (they must leave no trace); besides decided states, a competition the cards show must be over (everybody retired after a clearance; a jump-off round complete with exactly one clearance) is judged while the library still reports it as running'
ASSUMPTIONS = ['jump-off continuations stay inside the rule-conforming sub-domain the property names (every live participant '
               'attempts or retires at each jump-off height before the bar moves; no pass in a jump-off)']
RULE = RULE + '; one play in four hands the bar heights over as floats on 1 cm steps'
RULE = RULE + '; the decided card re-imported with its order column as numbers and as an all-text CSV card gives the same competition'

BIBS = ['A', 'B', 'C', 'D']
CELLS = ['o', 'xo', 'xxo', 'xxx', '-', 'x-', 'xx-', 'r', 'xr', 'xxr', '', 'x', 'xx']


def features(obs, first_jo):
    """Root-cause discriminators computed from the final cards."""
    cards, heights = obs['cards'], obs['heights']
    f = []
    if first_jo is None:
        return ['regular']
    nreg = first_jo
    keys = {b: hjmodel.countback_key(cards[b], heights, nreg) for b in cards}
    placed = [k for k in keys.values() if k is not None]
    parts = [b for b in cards if placed and keys[b] == min(placed)]
    low = False
    for b in parts:
        best_reg = -keys[b][0]
        for i in range(nreg, len(cards[b])):
            if 'o' in cards[b][i] and heights[i] <= best_reg:
                low = True
    if low:
        f.append('jumpoff-clearance-not-above-best')
    if len(parts) >= 3:
        f.append('3plus-participants')
    if any('r' in c for b in parts for c in cards[b][nreg:]):
        f.append('retired-in-jumpoff')
    return f or ['jumpoff']


def _cm(x):
    """A height handed over as a float, back on the exact centimetre grid it was taken from."""
    try:
        return Decimal(str(round(float(x), 2)))
    except Exception:
        return x


def evaluate(c, m, hist, float_heights=False, observers=False):
    """C03 predicate at a decided state.  Returns violations."""
    obs = hjimpl.observe(c)
    if obs['stage'] not in ('finished', 'won', 'drawn'):
        return []
    if float_heights:
        obs['heights'] = [_cm(h) for h in obs['heights']]
        obs['bests'] = {b: _cm(v) for b, v in obs['bests'].items()}
    if m.first_jo is not None and not any('o' in cell for card in obs['cards'].values() for cell in card[:m.first_jo]):
        return []       # a "jump-off" among athletes without any clearance: the property is silent there
    bad = hjmodel.places_valid(obs['cards'], obs['heights'], m.first_jo, obs['stage'], obs['places'], obs['bests'])
    out = []
    feats = features(obs, m.first_jo)
    case = {'kind': 'history', 'bibs': list(m.order), 'calls': [hjsearch.enc(x) for x in hist]}
    if float_heights:
        case['float_heights'] = True
    if observers:
        case['observers'] = True
    for clause, detail in bad:
        out.append(V(clause, ['places', clause] + feats, case,
                     {'detail': detail, 'stage': obs['stage'], 'cards': obs['cards'],
                      'heights': [str(h) for h in obs['heights']],
                      'places': obs['places'], 'bests': {b: str(v) for b, v in obs['bests'].items()}}))
    return out


def nontrivial(obs, first_jo):
    cards, heights = obs['cards'], obs['heights']
    if first_jo is not None:
        return True
    keys = [hjmodel.countback_key(cards[b], heights) for b in cards]
    ks = [k for k in keys if k is not None]
    if len(set(k[0] for k in ks)) < len(ks):
        return True       # equal best height somewhere: countback level 2 or 3 decides
    for card in cards.values():
        s = ''.join(card)
        if 'x-' in s:
            return True
    return False


def examine(case):
    """Replay a stored history on the implementation alone and judge every decided state it passes through."""
    p = ImplPlayer(0, bool(case.get('float_heights')), bool(case.get('observers')))
    p.bibs = list(case['bibs'])
    out = []
    for raw in case['calls']:
        call = hjsearch.dec(raw)
        if not p.call(call):
            p.hist.append(call)        # a refused call is part of the history all the same (it must leave no trace)
        elif p.c.state in ('finished', 'won', 'drawn'):
            m = M(p.bibs, p.first_jo if p.first_jo is not None and p.first_jo < len(p.c.heights) else None)
            out.extend(evaluate(p.c, m, p.hist, p.float_heights, p.observers))
            if case.get('reimport'):
                out.extend(reimport_check(p))
        else:
            out.extend(undecided(p))
        out.extend(height_drift(p))
    return out


def height_drift(p):
    """The heights on the card are the heights the bar was set to ("an athlete's best is the greatest height they ever
    cleared" is about those)."""
    if not p.bad_height:
        return []
    case = {'kind': 'history', 'bibs': list(p.bibs), 'calls': [hjsearch.enc(x) for x in p.hist]}
    if p.float_heights:
        case['float_heights'] = True
    if p.observers:
        case['observers'] = True
    bh, p.bad_height = p.bad_height, None
    return [V('best-is-greatest-height-cleared', ['height-recorded-differs-from-height-given'], case, bh[1], bh[0])]


def undecided(p):
    """A tie for first is never left standing: situations, read from the cards alone, in which the competition must have
    been decided - everybody has retired (after a clearance somewhere), or a jump-off round is complete with exactly one
    clearance - while the library still reports it as running."""
    c = p.c
    if c.state in ('finished', 'won', 'drawn', 'scheduled'):
        return []
    cards = {j.bib: list(j.attempts_by_height) for j in c.jumpers}
    nh = len(c.heights)
    if not cards or not nh or not any('o' in cell for card in cards.values() for cell in card):
        return []
    why = None
    if all('r' in ''.join(card) for card in cards.values()):
        why = 'everybody-has-retired'
    elif c.state == 'jumpoff' and p.first_jo is not None and p.first_jo < nh:
        fj, last = p.first_jo, nh - 1
        cell = lambda b, i: cards[b][i] if i < len(cards[b]) else ''
        if not any('o' in cell(b, i) for b in cards for i in range(fj)):
            return []        # a "jump-off" among athletes without any clearance: the property is silent there
        # the participants: the athletes tied for first on the regular card (countback over the regular columns)
        keys = {b: hjmodel.countback_key(cards[b], list(c.heights), fj) for b in cards}
        placed = [k for k in keys.values() if k is not None]
        P = [b for b in cards if placed and keys[b] == min(placed)]

        def out_earlier(b):
            if 'r' in ''.join(cards[b][:last]):
                return True
            return any('x' in cell(b, j) and 'o' not in cell(b, j) and any('o' in cell(o_, j) for o_ in P if o_ != b)
                       for j in range(fj, last))
        clear = [b for b in P if 'o' in cell(b, last)]
        rest = [b for b in P if b not in clear]
        if len(clear) == 1 and all(cell(b, last) in ('x', 'r') or out_earlier(b) for b in rest) and \
                all(cell(b, last) or out_earlier(b) for b in rest):
            why = 'jump-off-round-complete-with-one-clearance'
    if not why:
        return []
    case = {'kind': 'history', 'bibs': list(p.bibs), 'calls': [hjsearch.enc(x) for x in p.hist]}
    if p.float_heights:
        case['float_heights'] = True
    if p.observers:
        case['observers'] = True
    return [V('tie-for-first-never-left-standing', ['undecided', why, c.state], case,
              {'state': c.state, 'cards': cards, 'heights': [str(h) for h in c.heights]}, 'finished / won / drawn')]


def shrink(bucket):
    case = bucket['case']
    sig = bucket['sig']
    calls = list(case['calls'])
    n = len(case['bibs'])
    extra = {'float_heights': True} if case.get('float_heights') else {}

    def fails(cs):
        return any(v['sig'] == sig for v in examine(dict(extra, kind='history', bibs=case['bibs'], calls=cs)))
    changed = True
    while changed:
        changed = False
        for i in range(len(calls) - 1, n - 1, -1):
            t = calls[:i] + calls[i + 1:]
            if fails(t):
                calls = t
                changed = True
                break
    if len(calls) < len(case['calls']):
        c2 = dict(extra, kind='history', bibs=case['bibs'], calls=calls)
        v = [v for v in examine(c2) if v['sig'] == sig][0]
        return {'case': v['case'], 'observed': v['observed']}
    return None


# ---------------------------------------------------------------------------------------------
# drivers

class ImplPlayer(object):
    """Drives the implementation alone (no reference model): C03 judges only the final placings, from the cards."""

    def __init__(self, n, float_heights=False, observers=False):
        self.float_heights = float_heights
        self.observers = observers        # read the card / rankings / trial list after every call (reading changes nothing)
        self.bad_height = None            # a bar recorded at another height than the one given
        self.last_h = None
        self.c = hjimpl.new_comp()
        self.bibs = BIBS[:n]
        self.hist = []
        self.first_jo = None
        self.alive = True
        for b in self.bibs:
            self.call(('add', b))

    def observe(self):
        c = self.c
        try:
            c.to_matrix(); c.to_matrix(['bib']); list(c.trials); c.remaining; c.eliminated; c.is_finished; c.is_running
            [(j.place, j.ranking_key, j.has_retired) for j in c.jumpers]
        except Exception:
            pass          # (a read that raises is C08's / C10's business, not a placing)

    def call(self, call):
        r = hjimpl.apply(self.c, call, self.float_heights)
        if self.observers:
            self.observe()
        if r[0] != 'ok':
            return False
        self.hist.append(call)
        if call[0] == 'bar':
            self.last_h = call[1]         # the exact height, whatever carrier the library was given
            try:
                if abs(float(self.c.heights[-1]) - float(call[1])) > 1e-9:
                    self.bad_height = [str(call[1]), repr(self.c.heights[-1])]
            except Exception:
                pass
        if self.c.state == 'jumpoff' and self.first_jo is None:
            self.first_jo = len(self.c.heights)     # the next bar is the first jump-off height
        return True

    def live(self):
        return [j.bib for j in self.c.jumpers if not getattr(j, 'eliminated', False)]

    def poke(self, draw):
        """A call the rules forbid whatever the jump-off semantics (a trial by an athlete who has retired, who has cleared
        or passed the current height or has had three attempts at it; a late entry; a lower bar outside a jump-off): it
        must be refused and leave no trace, so the placings judged later are those of the cards all the same.  Returns
        False when the implementation ACCEPTED it (C02 reports that; the play is not judged any further)."""
        nh = len(self.c.heights)
        cands = []
        for j in self.c.jumpers:
            card = list(j.attempts_by_height)
            cur = card[nh - 1] if nh and len(card) >= nh else ''
            if 'r' in ''.join(card) or cur.endswith('o') or cur.endswith('-') or len(cur) >= 3:
                cands.append(j.bib)
            elif self.c.state == 'jumpoff' and getattr(j, 'eliminated', False):
                # out of the jump-off (never part of it, or knocked out in an earlier round): which athletes to poke is
                # only a choice of the generator - an accepted poke ends the play, it is never judged
                cands.append(j.bib)
        k = draw(8)
        if k == 0 and nh:
            call = ('add', 'Z')
        elif k == 1 and nh and self.c.state != 'jumpoff' and self.last_h is not None:
            call = ('bar', self.last_h - hjsearch.STEP)
        elif cands:
            call = (['cleared', 'failed', 'passed', 'retired'][draw(4)], cands[draw(len(cands))])
        else:
            return True
        r = hjimpl.apply(self.c, call, self.float_heights)
        self.hist.append(call)
        if r[0] == 'ok':
            self.alive = False
            return False
        return True


class M(object):
    """What evaluate() needs from a 'model': the athletes' order and the first jump-off column."""
    def __init__(self, order, first_jo):
        self.order = order
        self.first_jo = first_jo


def reimport_check(p):
    """The decided competition exported WITH its result columns (place, best - documented as recalculated on import) and
    imported again: wherever the import is decided too, its placings obey the same clauses."""
    from vlib.lib import call as _call
    from athlib import HighJumpCompetition
    m_ = _call(p.c.to_matrix, ['bib', 'highest_cleared'])
    if m_[0] != 'ret':
        return []
    out = []
    nk = 2
    plain = [list(row) for row in m_[1]]
    dressed = [list(row) for row in m_[1]]
    for i in range(nk, len(dressed[0])):       # the height headers as a pasted sheet may carry them: a stray blank, a plus sign
        dressed[0][i] = [' %s', '%s ', '+%s', '%s'][i % 4] % dressed[0][i]
    ref = None
    for label, mat in (('re-imported-card', plain), ('re-imported-card-dressed-headers', dressed)):
        r = _call(HighJumpCompetition.from_matrix, mat)
        if r[0] != 'ret' or r[1].state not in ('finished', 'won', 'drawn'):
            if label.endswith('dressed-headers') and ref is not None:
                out.append(V('places-from-cards', ['places', 're-import-differs', 'dressed-headers'], dict(case0(p), reimport=True),
                             r[:2] if r[0] != 'ret' else r[1].state, 'the competition of the plain card'))
            continue          # (whether an import reproduces the competition at all is C08's clause)
        fj = p.first_jo if p.first_jo is not None and p.first_jo < len(p.c.heights) else None
        vs = evaluate(r[1], M([str(b) for b in p.bibs], fj), p.hist, p.float_heights, p.observers)
        for v in vs:
            v['sig'] = v['sig'] + [label]
            v['case'] = dict(v['case'], reimport=True)
        out.extend(vs)
        pl = {str(j.bib): j.place for j in r[1].jumpers}
        if ref is None:
            ref = pl
        elif pl != ref:
            out.append(V('places-from-cards', ['places', 're-import-differs', 'dressed-headers'], dict(case0(p), reimport=True), pl, ref))
    # the same card with its jumping-order column, once as the export has it and once as a CSV reader hands it over (every
    # cell text, the order included): the same competition, the same placings
    mo = _call(p.c.to_matrix, ['order', 'bib', 'highest_cleared'])
    if mo[0] == 'ret' and all(isinstance(row[0], int) or row[0] in ('DNS', 'DQ') for row in mo[1][1:]):
        ordered = [list(row) for row in mo[1]]
        text = [['' if x is None else str(x) for x in row] for row in mo[1]]
        ro = _call(HighJumpCompetition.from_matrix, ordered)
        if ro[0] == 'ret':
            rt = _call(HighJumpCompetition.from_matrix, text)
            want = (ro[1].state, {str(j.bib): (j.place, tuple(j.attempts_by_height)) for j in ro[1].jumpers})
            got = (rt[1].state, {str(j.bib): (j.place, tuple(j.attempts_by_height)) for j in rt[1].jumpers}) if rt[0] == 'ret' else rt[:2]
            if got != want:
                out.append(V('places-from-cards', ['places', 're-import-differs', 'all-text-card'], dict(case0(p), reimport=True), got, want))
    return out


def case0(p):
    case = {'kind': 'history', 'bibs': list(p.bibs), 'calls': [hjsearch.enc(x) for x in p.hist]}
    if p.float_heights:
        case['float_heights'] = True
    if p.observers:
        case['observers'] = True
    return case


def check_decided(ctx, p):
    if p.c.state in ('finished', 'won', 'drawn') and len(p.hist) % 3 == 0 and not p.float_heights:
        ctx.violations(reimport_check(p))
        ctx.label('decided-card-re-imported-with-result-columns')
    if p.bad_height:
        ctx.violations(height_drift(p))
    if p.c.state not in ('finished', 'won', 'drawn'):
        vs = undecided(p)
        if vs:
            ctx.violations(vs)
    if p.c.state in ('finished', 'won', 'drawn'):
        ctx.count()
        m = M(p.bibs, p.first_jo if p.first_jo is not None and p.first_jo < len(p.c.heights) else None)
        ctx.violations(evaluate(p.c, m, p.hist, p.float_heights, p.observers))
        obs = hjimpl.observe(p.c)
        if p.float_heights:
            obs['heights'] = [_cm(h) for h in obs['heights']]
            obs['bests'] = {b: _cm(v) for b, v in obs['bests'].items()}
        ctx.label('decided-' + obs['stage'])
        if m.first_jo is not None:
            for f in features(obs, m.first_jo):
                ctx.label('jumpoff-feature-' + f)
        if nontrivial(obs, m.first_jo):
            key = (repr(sorted(obs['cards'].items())), tuple(obs['heights']))
            ctx.nontrivial(hash(key), {'cards': obs['cards'], 'heights': [str(h) for h in obs['heights']],
                                       'stage': obs['stage'], 'places': obs['places'],
                                       'first_jumpoff_column': m.first_jo}
                           if len(ctx.nt_keys) % 3000 == 4 else None)


def play_cards(ctx, p, cells, order, draw=None):
    for k in range(3):
        for b in order:
            cell = cells.get(b, '')
            if len(cell) > k:
                if not maybe_poke(ctx, p, draw):
                    return
                if p.call((hjplay.OPS[cell[k]], b)):
                    check_decided(ctx, p)


def maybe_poke(ctx, p, draw):
    """One legal call in six is preceded by a forbidden one (an official tapping the wrong bib)."""
    if draw is None or not p.alive or draw(6):
        return p.alive
    ctx.label('forbidden-call-tried-first')
    if not p.poke(draw):
        ctx.label('play-abandoned-forbidden-call-accepted')
    return p.alive


def finish_regular(ctx, p):
    guard = 0
    while p.c.state in ('started', 'won') and guard < 4:
        guard += 1
        live = p.live()
        if not live:
            break
        st = Decimal('0.01') if p.float_heights else hjsearch.STEP
        h = (p.last_h if p.c.heights else Decimal('0.95')) + st
        p.call(('bar', h))
        for b in live:
            for _ in range(3):
                if p.call(('failed', b)):
                    check_decided(ctx, p)


def jumpoff(ctx, p, draw, max_heights=3, poke=False):
    rounds = 0
    while p.c.state == 'jumpoff' and rounds < max_heights:
        rounds += 1
        last = p.last_h
        st = Decimal('0.01') if p.float_heights else hjsearch.STEP
        h = [last + st, last, last - st, last - 2 * st][draw(4)]
        if not p.call(('bar', h)):
            break
        live = p.live()
        if draw(2):
            live.reverse()
        for b in live:
            k = draw(20)
            if poke and not maybe_poke(ctx, p, draw):
                return
            if p.call(('cleared' if k < 9 else 'failed' if k < 18 else 'retired', b)):
                check_decided(ctx, p)
            if p.c.state != 'jumpoff':
                break


def random_play(ctx, draw):
    ctx.label('play')
    n = 2 + draw(3)
    hreg = 1 + draw(4)
    # one play in four hands the bar heights over as floats on 1 cm steps from anywhere between 0.95 and 3.44 (callers
    # do; 2.01 is not exactly representable): the placing is about the heights, not about their binary representation
    fh = draw(4) == 0
    p = ImplPlayer(n, fh, observers=(draw(3) == 0))
    if p.observers:
        ctx.label('play-with-reads-after-every-call')
    pokes = draw(3) == 0          # one play in three has forbidden calls tried in between (they must leave no trace)
    if pokes:
        ctx.label('play-with-forbidden-calls')
    if fh:
        ctx.label('play-float-heights-1cm')
    bibs = BIBS[:n]
    h = Decimal('0.95') if not fh else Decimal(95 + draw(250)) / 100
    step = hjsearch.STEP if not fh else Decimal('0.01')
    for i in range(hreg):
        if p.c.state not in ('scheduled', 'started', 'won'):
            break
        h += step * (1 + draw(2))
        if not p.call(('bar', h)):
            break
        script = 'o' if i == 0 and draw(3) else hjplay.CELLS[draw(len(hjplay.CELLS))]
        cells = {b: (script if draw(10) < 6 else hjplay.CELLS[draw(len(hjplay.CELLS))]) for b in bibs}
        order = list(bibs)
        if draw(2):
            order.reverse()
        play_cards(ctx, p, cells, order, draw if pokes else None)
        if not p.alive:
            return p
    finish_regular(ctx, p)
    jumpoff(ctx, p, draw, poke=pokes)
    return p


def shard_random(ctx, payload):
    n = payload
    rng = random.Random(derive_seed(ctx.seed, 'C03', ctx.shard))
    for _ in range(n):
        random_play(ctx, rng.randrange)


def consistent_cells():
    return [c for c in CELLS if c not in ('x', 'xx')] + ['x', 'xx']


def shard_exhaustive(ctx, payload):
    """All cards for a shape (n athletes x hreg heights) whose first-height cells are `first`, each with all jump-off
    continuations of up to 2 heights (bar raised / repeated / lowered x every o/x/r outcome)."""
    n, hreg, first = payload
    bibs = BIBS[:n]
    cells = CELLS
    rest = n * (hreg - 1)
    for tail in itertools.product(range(len(cells)), repeat=rest):
        grid = [list(first)] + [[cells[tail[(i - 1) * n + j]] for j in range(n)] for i in range(1, hreg)]
        p = ImplPlayer(n)
        h = Decimal('0.95')
        ok = True
        for i in range(hreg):
            h += hjsearch.STEP
            if p.c.state not in ('scheduled', 'started', 'won') or not p.call(('bar', h)):
                ok = False
                break
            before = len(p.hist)
            play_cards(ctx, p, dict(zip(bibs, grid[i])), bibs)
            # a grid whose cells could not all be played is the same play as a smaller grid: skip duplicates
            if len(p.hist) - before != sum(len(c) for c in grid[i]):
                ok = False
                break
        if not ok:
            continue
        finish_regular(ctx, p)
        ctx.label('exhaustive-card')
        if p.c.state == 'jumpoff':
            explore_jumpoff(ctx, p, 2)


def explore_jumpoff(ctx, p, depth):
    """Every continuation of a jump-off: bar move x outcome vector, recursively."""
    if depth == 0 or p.c.state != 'jumpoff':
        return
    last = p.c.heights[-1]
    live = p.live()
    for h in (last + hjsearch.STEP, last, last - hjsearch.STEP, last - 2 * hjsearch.STEP):
        for outcome in itertools.product(('cleared', 'failed', 'retired'), repeat=len(live)):
            q = ImplPlayer(0)
            q.c, q.bibs, q.hist, q.first_jo = hjimpl.clone(p.c), p.bibs, list(p.hist), p.first_jo
            if not q.call(('bar', h)):
                continue
            for b, op in zip(live, outcome):
                if q.call((op, b)):
                    check_decided(ctx, q)
                if q.c.state != 'jumpoff':
                    break
            ctx.label('exhaustive-jumpoff-round')
            explore_jumpoff(ctx, q, depth - 1)


class BfsVisitor(object):
    def __init__(self, ctx):
        self.ctx = ctx
        self.seen = set()

    def __call__(self, c, m, hist, vs, status, call):
        if status != 'ok' or c.state not in ('finished', 'won', 'drawn'):
            return
        k = hjimpl.dedup_key(c)
        if k in self.seen:
            return
        self.seen.add(k)
        ctx = self.ctx
        ctx.count()
        ctx.violations(evaluate(c, m, hist))
        obs = hjimpl.observe(c)
        ctx.label('bfs-decided-' + obs['stage'])
        if nontrivial(obs, m.first_jo):
            ctx.nontrivial(hash((repr(sorted(obs['cards'].items())), tuple(obs['heights']))))


def shard_bfs(ctx, payload):
    n, prefix, depth, max_reg = payload
    stats = {'calls': 0, 'states': 0, 'truncated': {}}
    hjsearch.bfs(BIBS[:n], [hjsearch.dec(x) for x in prefix], depth, max_reg, max_reg + 3, BfsVisitor(ctx), stats)
    ctx.extra['bfs_calls'] = stats['calls']


def run(ctx):
    from checks.c02 import bfs_payloads
    from vlib.harness import Ctx
    thorough = ctx.tier == 'thorough'
    plan = [(2, 10, 4), (3, 8, 3)] if thorough else [(2, 8, 4), (3, 6, 3)]
    payloads = []
    scratch = Ctx('C03', ctx.tier, ctx.seed)     # the first BFS levels are C02's business
    for n, depth, max_reg in plan:
        payloads += bfs_payloads(scratch, n, depth, max_reg)
    run_shards(ctx, 'checks.c03', 'shard_bfs', payloads, disjoint=False)
    run_shards(ctx, 'checks.c03', 'shard_random', [12000 if thorough else 1200] * 16, disjoint=False)
    if thorough:
        ex = []
        for n, hreg in ((2, 3), (3, 2)):
            for first in itertools.product(CELLS, repeat=n):
                ex.append((n, hreg, first))
        run_shards(ctx, 'checks.c03', 'shard_exhaustive', ex, disjoint=False)
        ctx.note('card spaces 2 athletes x 3 heights and 3 athletes x 2 heights enumerated completely with all jump-off '
                 'continuations of up to 2 heights')

    # Hypothesis-driven share (shrinkable draws)
    @hypothesis.seed(derive_seed(ctx.seed, 'C03-hyp'))
    @settings(max_examples=3000 if thorough else 300, database=None, deadline=None,
              suppress_health_check=list(HealthCheck), phases=[Phase.generate])
    @given(st.data())
    def t(data):
        random_play(ctx, lambda k: data.draw(st.integers(0, k - 1)))
    t()
