#!/venv/bin/python
"""atheris target for C12: bytes -> (event index, text over a small alphabet, gender, prec); oracle = c12.examine."""
import json
import os
import sys

import atheris

with atheris.instrument_imports(include=['athlib']):
    import athlib  # noqa: F401
from checks import c12
from vlib.harness import sig_hash

SKIP = set(json.loads(os.environ.get('VERIF_KNOWN_SIGS', '[]')) + json.loads(os.environ.get('VERIF_EXCLUDE_SIGS', '[]')))
EVENTS = c12.COMMON + c12.LOOSE
ALPHA = '0123456789:;., '


def TestOneInput(data):
    fdp = atheris.FuzzedDataProvider(data)
    event = EVENTS[fdp.ConsumeIntInRange(0, len(EVENTS) - 1)]
    n = fdp.ConsumeIntInRange(0, 12)
    text = ''.join(ALPHA[fdp.ConsumeIntInRange(0, len(ALPHA) - 1)] for _ in range(n))
    case = {'event': event, 'text': text, 'gender': c12.GENDERS[fdp.ConsumeIntInRange(0, len(c12.GENDERS) - 1)],
            'prec': c12.PRECS[fdp.ConsumeIntInRange(0, len(c12.PRECS) - 1)]}
    for v in c12.examine(case):
        if sig_hash(v['sig']) not in SKIP:
            print('FUZZ-VIOLATION ' + json.dumps(v))
            sys.stdout.flush()
            raise RuntimeError('C12 violation')


if __name__ == '__main__':
    atheris.Setup(sys.argv, TestOneInput)
    atheris.Fuzz()
