"""C14 — WMA age grading is defined, consistent and spelling-independent on its domain."""
import json
import math
from fractions import Fraction
import os
import random

import athlib
from athlib import codes
from vlib.harness import V, derive_seed, run_shards, REPO
from vlib.lib import call

PROPERTY = 'C14'
AMBIENT_PASS = True        # the same search once more under unusual ambient settings (vlib.run.AMBIENT_SETTINGS)
RULE = ('tables 2015 and 2023 (year= as int) and the combined-events table x every tabulated event as written and in lower, Title, '
        'swapped and alternating letter case (when that spelling is itself an accepted code) x gender spellings {m f M F male Male men female FEMALE Female} x '
        'every integer and half-integer age from the first non-null column of the row to 20 years past the last column (an '
        'age is covered when the cells it needs are non-null); grades on a grid of performances 0.5x..2x the open best at 8 '
        'ages per row; factor clauses complete in both tiers, grades at 8 ages per row (quick) / every integer age (thorough); oracle = the JSON cell read '
        'independently (integer ages), betweenness (half-integers) and monotone interpolation over quarter ages inside each one-year interval, last column beyond the table, identical factor / best / '
        'grade for all spellings, grade == standard / time or mark / standard to 1e-12, grade(best) == 1.0 exactly where the '
        'factor is 1, strictly better performance => strictly higher grade; non-trivial = a non-canonical spelling, an age at a '
        'table end / first non-null column / beyond the last column, or a half-integer age; distinct (table, gender, event, age)')
RULE = RULE + '; every grade also with verbose=True (keyword / positional) and with the performance as text'
ASSUMPTIONS = ['the combined-events table carries no open bests: the factor and spelling clauses and the DIRECTION of the grade (a better mark grades higher) apply to wma_athlon_*, not the grade value',
               'rows with null cells in the middle (2015 women\'s pole vault above 90) are covered up to the last non-null cell']
RULE = RULE + '; table year also as text and left out (the three entry points must select the same table); interleaved histories include calls that raise'

GENDERS = {'m': ['m', 'M', 'male', 'Male', 'men'], 'f': ['f', 'F', 'female', 'FEMALE', 'Female']}

_data = {}


def table(year):
    if year not in _data:
        fn = 'wma-athlons-data.json' if year == 'athlon' else 'wma-data-%s.json' % year
        with open(os.path.join(REPO, 'athlib', 'wma', fn), encoding='utf-8') as f:
            _data[year] = json.load(f)
    return _data[year]


def row_cells(year, g, event):
    """{age: cell} for a row, and the open best (None for the combined-events table)."""
    d = table(year)
    for row in d[g]:
        if row[0] == event:
            # a row shorter than the header (cells missing at the end) ends at its own last cell: ages past it use that
            # cell, like ages past the last column of a full row
            if year == 'athlon':
                return {a: row[k] for k, a in enumerate(d['ages']) if 1 <= k < len(row)}, None
            return {a: row[3 + k] for k, a in enumerate(d['ages']) if 3 + k < len(row)}, row[2]
    return None, None


def f_factor(year, gender, age, event):
    if year == 'athlon':
        return call(athlib.wma_athlon_age_factor, gender, age, event)
    return call(athlib.wma_age_factor, gender, age, event, year=year)


def f_best(year, gender, event):
    return call(athlib.wma_world_best, gender, event, year=year)


def f_grade(year, gender, age, event, perf):
    if year == 'athlon':
        return call(athlib.wma_athlon_age_grade, gender, age, event, perf)
    return call(athlib.wma_age_grade, gender, age, event, perf, year=year)


def f_grade_verbose(year, gender, age, event, perf, positional=False):
    """The same grade asked for with the documented `verbose` option on (it prints the working; the answer is the answer)."""
    import contextlib, io
    with contextlib.redirect_stdout(io.StringIO()):
        if year == 'athlon':
            if positional:
                return call(athlib.wma_athlon_age_grade, gender, age, event, perf, True)
            return call(athlib.wma_athlon_age_grade, gender, age, event, perf, verbose=True)
        if positional:
            return call(athlib.wma_age_grade, gender, age, event, perf, True, year)
        return call(athlib.wma_age_grade, gender, age, event, perf, verbose=True, year=year)


def _case_ok(sp, event):
    if sp == event or not codes.PAT_EVENT_CODE.match(sp):
        return False
    return any(p.match(sp) for p in (codes.PAT_THROWS, codes.PAT_JUMPS, codes.PAT_TRACK, codes.PAT_ROAD))


def lower_ok(event):
    lo = event.lower()
    return lo if _case_ok(lo, event) else None


def case_spellings(event):
    """Other letter-case spellings of a tabulated event that are themselves accepted codes: lower, Title, sWAPPED
    and two alternating masks."""
    out = []
    alt1 = ''.join(ch.lower() if i % 2 else ch.upper() for i, ch in enumerate(event))
    alt2 = ''.join(ch.upper() if i % 2 else ch.lower() for i, ch in enumerate(event))
    for sp in (event.lower(), event.title(), event.swapcase(), alt1, alt2):
        if _case_ok(sp, event) and sp not in out:
            out.append(sp)
    return out


def is_timed(event):
    return not (codes.PAT_THROWS.match(event) or codes.PAT_JUMPS.match(event))


def examine(case):
    k = case['kind']
    if k == 'history':
        return examine_history(case)
    year, g, event = case['year'], case['g'], case['event']
    cells, best = row_cells(year, g, event)
    if cells is None:
        return []
    out = []
    ages = sorted(cells)
    last_age = ages[-1]
    nonnull = [a for a in ages if cells[a] is not None]
    if year != 'athlon':
        # contiguous non-null run from the first non-null cell
        run_end = nonnull[0]
        for a in ages:
            if a > run_end and cells[a] is not None and cells.get(a - 1) is not None:
                run_end = a
            elif a > run_end:
                break
    if k == 'factor':
        age = case['age']
        r = f_factor(year, g, age, event)
        base = {'kind': 'factor', 'year': year, 'g': g, 'event': event, 'age': age}
        where = 'beyond-last-column' if age > last_age else 'first-column' if age == nonnull[0] else 'inside'
        if r[0] == 'exc':
            return [V('factor-defined', ['factor-raises', r[1], where, 'athlon' if year == 'athlon' else 'single'], base, r[:3])]
        f = r[1]
        if not isinstance(f, (int, float)) or isinstance(f, bool) or not math.isfinite(f) or f <= 0:
            return [V('factor-finite-positive', ['factor-not-finite-positive', where], base, f)]
        if year == 'athlon':
            band = min(5 * (int(age) // 5), last_age)
            want = cells[band]
            if f != want:
                out.append(V('factor-equals-table', ['factor-cell', 'athlon', where], base, f, want))
        elif age > last_age:
            if f != cells[last_age]:
                out.append(V('beyond-last-column-uses-last', ['factor-cell', 'beyond'], base, f, cells[last_age]))
        elif age == int(age):
            if f != cells[int(age)]:
                out.append(V('factor-equals-table', ['factor-cell', 'integer-age'], base, f, cells[int(age)]))
        else:
            lo, hi = cells[math.floor(age)], cells[math.ceil(age)]
            if not (min(lo, hi) - 1e-12 <= f <= max(lo, hi) + 1e-12):
                out.append(V('half-integer-between-neighbours', ['factor-between'], base, f, [lo, hi]))
        # spelling independence of the factor
        for sp in GENDERS[g]:
            for ev in [event] + case_spellings(event):
                if sp == g and ev == event:
                    continue
                r2 = f_factor(year, sp, age, ev)
                if r2 != r:
                    out.append(V('spelling-independent', ['spelling', 'factor', 'gender' if ev == event else 'event-case'],
                                 dict(base, spelling=[sp, ev]), r2[:3], f))
                    return out
        return out
    if k == 'interval':
        a = case['age']
        seq = [f_factor(year, g, a + q, event) for q in (0, 0.25, 0.5, 0.75, 1)]
        if all(r[0] == 'ret' for r in seq):
            vals = [r[1] for r in seq]
            up = all(x <= y + 1e-12 for x, y in zip(vals, vals[1:]))
            down = all(x >= y - 1e-12 for x, y in zip(vals, vals[1:]))
            if not (up or down):
                out.append(V('half-integer-between-neighbours', ['factor-interval-not-monotone'],
                             {'kind': 'interval', 'year': year, 'g': g, 'event': event, 'age': a}, vals))
        return out
    if k == 'agrade':
        age = case['age']
        timed = is_timed(event)
        marks = [10.0, 12.5, 17.25] if timed else [1.5, 2.05, 6.4]        # from best to worst (timed) / worst to best (field)
        rs = [f_grade(year, g, age, event, m) for m in marks]
        if any(r[0] == 'exc' for r in rs):
            if f_factor(year, g, age, event)[0] == 'ret':
                bad = [r for r in rs if r[0] == 'exc'][0]
                out.append(V('grade-defined', ['grade-raises', bad[1], 'athlon'], dict(case), bad[:3]))
            return out
        vals = [r[1] for r in rs]
        for m, r in zip(marks, rs):
            rv = f_grade_verbose(year, g, age, event, m, positional=(m == marks[1]))
            if rv[:2] != r[:2]:
                out.append(V('grade-equals-standard-ratio', ['grade-value', 'verbose-option', 'athlon'], dict(case, perf=m), rv[:3], r[1]))
                return out
        ok = all(a > b for a, b in zip(vals, vals[1:])) if timed else all(a < b for a, b in zip(vals, vals[1:]))
        if not ok:
            out.append(V('better-grades-higher', ['grade-monotone', 'athlon', 'timed' if timed else 'field'],
                         dict(case, marks=marks), vals))
        return out
    if k == 'grade':
        age = case['age']
        base = {'kind': 'grade', 'year': year, 'g': g, 'event': event, 'age': age}
        fr = f_factor(year, g, age, event)
        br = f_best(year, g, event)
        if fr[0] == 'exc':
            return []      # reported by the factor case
        if br[0] == 'exc' or br[1] != best:
            return [V('best-equals-table', ['best', br[1] if br[0] == 'exc' else 'value'], base, br[:3], best)]
        f = fr[1]
        if not f:
            return []      # reported by the factor case
        std = best / f
        timed = is_timed(event)
        prev = None
        mults = [0.5, 0.8, 0.95, 1.0, 1.05, 1.3, 2.0]
        perfs = [round(best * m, 2) for m in mults]
        perfs = sorted(set(p for p in perfs if p > 0), reverse=timed)     # from worst to best
        for p in perfs:
            gr = f_grade(year, g, age, event, p)
            if gr[0] == 'exc':
                return out + [V('grade-defined', ['grade-raises', gr[1]], dict(base, perf=p), gr[:3])]
            want = (std / p) if timed else (p / std)
            if not math.isclose(gr[1], want, rel_tol=1e-12):
                out.append(V('grade-equals-standard-ratio', ['grade-value', 'timed' if timed else 'field'], dict(base, perf=p), gr[1], want))
                break
            if prev is not None and not gr[1] > prev:
                out.append(V('better-grades-higher', ['grade-monotone'], dict(base, perf=p), [prev, gr[1]]))
                break
            prev = gr[1]
            # the options and carriers a caller may use for the same question: `verbose` on (keyword / positional), the
            # performance as text
            for label, rv in (('verbose-option', f_grade_verbose(year, g, age, event, p, positional=(p == perfs[0]))),
                              ('performance-as-text', f_grade(year, g, age, event, '%.2f' % p))):
                if rv[:2] != gr[:2]:
                    out.append(V('grade-equals-standard-ratio', ['grade-value', label], dict(base, perf=p), rv[:3], gr[1]))
                    return out
        if timed:
            # performances finer than a hundredth, as text in seconds and in clock form (m:ss.xxx): the grade is that of the
            # value written, and of two such performances the better one grades higher
            p0 = perfs[len(perfs) // 2]
            fine = [p0 + 0.006, p0 + 0.004, p0 - 0.0015]          # from worse to better
            prevg = None
            for q in fine:
                qt = '%.4f' % q
                mm, ss = divmod(Fraction(qt), 60)
                clock = '%d:%s' % (mm, ('%07.4f' % float(ss))) if Fraction(qt) >= 60 else qt
                want = std / float(Fraction(qt))
                for label, txt in (('text-thousandths', qt), ('clock-thousandths', clock)):
                    gq = f_grade(year, g, age, event, txt)
                    if gq[0] != 'ret' or not math.isclose(gq[1], want, rel_tol=1e-9):
                        out.append(V('grade-equals-standard-ratio', ['grade-value', label], dict(base, perf=txt), gq[:3], want))
                        return out
                if prevg is not None and not gq[1] > prevg:
                    out.append(V('better-grades-higher', ['grade-monotone', 'thousandths'], dict(base, perf=clock), [prevg, gq[1]]))
                    return out
                prevg = gq[1]
        if year != 'athlon':
            # the table year in its other carriers (text, left out): whichever table such a carrier selects, the three entry
            # points select the SAME one - the grade still equals best / factor / performance taken with that same argument
            p = perfs[len(perfs) // 2]
            for kw in ({'year': str(year)}, {}):
                fb = call(athlib.wma_world_best, g, event, **kw)
                ff = call(athlib.wma_age_factor, g, age, event, **kw)
                fg = call(athlib.wma_age_grade, g, age, event, p, **kw)
                if fb[0] == 'ret' and ff[0] == 'ret' and ff[1] and fg[0] == 'ret':
                    want = ((fb[1] / ff[1]) / p) if timed else (p / (fb[1] / ff[1]))
                    if not math.isclose(fg[1], want, rel_tol=1e-12):
                        out.append(V('grade-equals-standard-ratio', ['grade-value', 'year-as-text' if kw else 'year-left-out'],
                                     dict(base, perf=p, year_arg=kw.get('year', 'omitted')), fg[1], want))
                        break
                elif fg[0] != ff[0] or fg[0] != fb[0]:
                    out.append(V('grade-defined', ['entry-points-disagree', 'year-as-text' if kw else 'year-left-out'],
                                 dict(base, perf=p, year_arg=kw.get('year', 'omitted')), [fb[:2], ff[:2], fg[:2]]))
                    break
        if f == 1:
            g1 = f_grade(year, g, age, event, best)
            if g1 != ('ret', 1.0):
                out.append(V('best-grades-one', ['grade-of-best'], dict(base, perf=best), g1[:3], 1.0))
        # spelling independence of best and grade (also text performances)
        p = perfs[len(perfs) // 2]
        ref = f_grade(year, g, age, event, p)
        for sp in GENDERS[g]:
            for ev in [event] + case_spellings(event):
                if sp == g and ev == event:
                    continue
                b2 = f_best(year, sp, ev)
                if b2 != br:
                    out.append(V('spelling-independent', ['spelling', 'best', 'gender' if ev == event else 'event-case'],
                                 dict(base, spelling=[sp, ev]), b2[:3], best))
                    return out
                g2 = f_grade(year, sp, age, ev, p)
                if g2 != ref:
                    out.append(V('spelling-independent', ['spelling', 'grade', 'gender' if ev == event else 'event-case'],
                                 dict(base, spelling=[sp, ev], perf=p), g2[:3], ref[1]))
                    return out
        return out
    return out


def ages_for(year, g, event, rng=None):
    cells, best = row_cells(year, g, event)
    ages = sorted(cells)
    nonnull = [a for a in ages if cells[a] is not None]
    first = nonnull[0]
    # contiguous covered run
    end = first
    while end + 1 in cells and cells[end + 1] is not None:
        end += 1
    out = []
    if year == 'athlon':
        return [a for a in range(first, ages[-1] + 21)] + [a + 0.5 for a in range(first, ages[-1] + 20)]
    for a in range(first, end + 1):
        out.append(a)
        if a + 1 <= end:
            out.append(a + 0.5)
    if end == ages[-1]:
        out += [end + 0.5, end + 1, end + 5.5, end + 20]
    return out


def shard(ctx, payload):
    year, g, event, thorough = payload
    ages = ages_for(year, g, event)
    cells, best = row_cells(year, g, event)
    first, last = ages[0], max(cells)
    for age in ages:
        case = {'kind': 'factor', 'year': year, 'g': g, 'event': event, 'age': age}
        ctx.count()
        vs = examine(case)
        if vs:
            ctx.violations(vs)
        ctx.nontrivial((year, g, event, age), case if (age in (first, last + 20) and event in ('100', 'PV', 'MAR', 'LH')) else None)
    if year == 'athlon':
        # no open bests in this table, so no grade VALUE to compare - but the direction still holds: a better mark (shorter
        # time, longer / higher jump or throw) grades strictly higher
        for age in sorted(set([ages[0], ages[len(ages) // 2], 50, 72.5])):
            case = {'kind': 'agrade', 'year': year, 'g': g, 'event': event, 'age': age}
            ctx.count(3)
            vs = examine(case)
            if vs:
                ctx.violations(vs)
            ctx.label('combined-events-grade-direction')
    if year != 'athlon':
        for age in [a for a in ages if a == int(a) and a + 1 in ages][::(1 if thorough else 4)]:
            ctx.count(5)
            vs = examine({'kind': 'interval', 'year': year, 'g': g, 'event': event, 'age': age})
            if vs:
                ctx.violations(vs)
            ctx.label('interval-cases')
        gr_ages = sorted(set([ages[0], ages[len(ages) // 3], ages[len(ages) // 2], ages[-1]] +
                             [a for a in (30, 35, 50.5, 72, 90) if ages[0] <= a <= last]))
        if thorough:
            gr_ages = sorted(set(gr_ages) | set(a for a in ages if a == int(a)))
        for age in gr_ages:
            case = {'kind': 'grade', 'year': year, 'g': g, 'event': event, 'age': age}
            ctx.count(8)
            vs = examine(case)
            if vs:
                ctx.violations(vs)
            ctx.label('grade-cases')
    ctx.label('rows')


def run_odd(step):
    g, code, year = step['g'], step['code'], step['year']
    if step['entry'] == 'best':
        return call(athlib.wma_world_best, g, code, year=year)
    if step['entry'] == 'factor':
        return call(athlib.wma_age_factor, g, step['age'], code, year=year)
    return call(athlib.wma_age_grade, g, 50, code, 1000.0, year=year)


import copy as _copy

_PRISTINE = None


def _snapshot_graders():
    """Remember the shared grader objects' and classes' state as it is right after import."""
    global _PRISTINE
    if _PRISTINE is None:
        objs = [athlib.ag2015, athlib.ag2023, athlib.aag]
        _PRISTINE = ([(o, dict(o.__dict__)) for o in objs],
                     [(c, {k: _copy.deepcopy(v) for k, v in vars(c).items() if isinstance(v, (dict, list, set))})
                      for c in (athlib.AgeGrader, athlib.AthlonsAgeGrader)])


_snapshot_graders()      # at import: nothing has used the graders yet


def reset_graders():
    """Put the shared graders back into their just-imported state, so a history is a pure function of its steps."""
    _snapshot_graders()
    for o, d in _PRISTINE[0]:
        o.__dict__.clear()
        o.__dict__.update(d)
    for c, d in _PRISTINE[1]:
        for k, v in d.items():
            cur = getattr(c, k)
            if isinstance(cur, dict):
                cur.clear()
                cur.update(_copy.deepcopy(v))
            elif isinstance(cur, list):
                cur[:] = _copy.deepcopy(v)
            elif isinstance(cur, set):
                cur.clear()
                cur.update(v)
        for k in [k for k, v in vars(c).items() if isinstance(v, (dict, list, set)) and k not in d]:
            try:
                getattr(c, k).clear()
            except Exception:
                pass


def examine_history(case):
    out = []
    reset_graders()
    for step in case['steps']:
        if step['kind'] == 'odd':
            run_odd(step)
        else:
            out = examine(step)
    for v in out:
        v['sig'] = v['sig'] + ['after-other-lookups']
        v['case'] = case
    return out


def shard_history(ctx, payload):
    """History independence on the SHARED grader objects: tabulated lookups of both genders / years, non-tabulated
    distance lookups (which use the same per-instance scratch) and grades are interleaved in one process in a seeded order;
    every tabulated answer must still equal its table cell, whatever was asked before."""
    n = payload
    rng = random.Random(derive_seed(ctx.seed, 'C14-history', ctx.shard))
    rows = []
    for year in (2015, 2023):
        d = table(year)
        for g in 'mf':
            for row in d[g]:
                rows.append((year, g, row[0]))
    odd = ['700', '7K', '8047', '12345', '3.5M', '250', '11K', '45', '99999']
    last = None
    hist = []
    reset_graders()
    for i in range(n):
        if len(hist) >= 60:          # histories are segments of <= 60 steps from a reset state: fully replayable
            hist = []
            last = None
            reset_graders()
        k = rng.randrange(10)
        year, g, event = rows[rng.randrange(len(rows))] if (k or last is None) else last
        if k == 1:
            # a non-tabulated distance on the same grader, through any of the three entry points
            step = {'kind': 'odd', 'entry': rng.choice(['best', 'factor', 'grade']), 'year': year, 'g': g,
                    'code': rng.choice(odd), 'age': rng.choice([35, 50, 72.5])}
            if rng.randrange(3) == 0:
                # a call that RAISES (unknown event, gender or age): an error path must not disturb later answers either
                step.update(rng.choice([{'code': 'NOPE'}, {'code': ''}, {'g': 'x'}, {'age': 3}, {'age': -1}, {'age': 'old'},
                                        {'code': '0'}, {'code': 'HJ 2'}, {'g': ''}]))
                ctx.label('interleaved-raising-calls')
            run_odd(step)
            hist.append(step)
            ctx.count()
            continue
        # only covered ages (the contiguous non-null run of the row, as in the main sweep)
        ages = [a for a in ages_for(year, g, event) if a == int(a) and a <= max(row_cells(year, g, event)[0])]
        age = rng.choice(ages)
        kind = 'factor' if k < 7 else 'grade'
        case = {'kind': kind, 'year': year, 'g': g, 'event': event, 'age': age}
        ctx.count()
        vs = examine(case)
        if vs:
            for v in vs:
                v['sig'] = v['sig'] + ['after-other-lookups']
                v['case'] = {'kind': 'history', 'steps': hist + [case]}
            ctx.violations(vs)
        hist.append(case)
        last = (year, g, event)
    ctx.label('interleaved-history-calls', n)


def run(ctx):
    thorough = ctx.tier == 'thorough'
    run_shards(ctx, 'checks.c14', 'shard_history', [20000 if thorough else 2500] * 16, disjoint=False)
    payloads = []
    for year in (2015, 2023, 'athlon'):
        d = table(year)
        for g in 'mf':
            for row in d[g]:
                payloads.append((year, g, row[0], thorough))
    run_shards(ctx, 'checks.c14', 'shard', payloads, disjoint=True)
    ctx.extra['rows'] = len(payloads)


def shrink(bucket):
    case = bucket['case']
    if case.get('kind') != 'history':
        return None
    sig = bucket['sig']
    steps = list(case['steps'])

    def fails(st):
        return any(v['sig'] == sig for v in examine({'kind': 'history', 'steps': st}))
    if not fails(steps):
        return None
    i = 0
    while i < len(steps) - 1:
        t = steps[:i] + steps[i + 1:]
        if fails(t):
            steps = t
        else:
            i += 1
    v = [v for v in examine({'kind': 'history', 'steps': steps}) if v['sig'] == sig][0]
    return {'case': v['case'], 'observed': v['observed']}
