"""C09 — performance-needed is the exact inverse of the combined-events score.

Finite domain, enumerated completely in both tiers: every row of the scoring table x every
integer target -10..1500, plus unknown gender/event pairs.
"""
import athlib
from vlib.harness import V
from vlib.lib import call, mod

PROPERTY = 'C09'
AMBIENT_PASS = True        # the same search once more under unusual ambient settings (vlib.run.AMBIENT_SETTINGS)
RULE = ('exhaustive: every (gender, event) row of the scoring table x every integer target '
        '-10..1500 (both directions: needed mark scores >= target, next-worse 0.01 grid mark scores '
        '< target), plus negative-target and unknown-pair clauses; non-trivial = a (row, target) with '
        'target >= 1 for which a mark was returned (minimality is vacuous at 0); distinct by (gender, event, target)')
RULE = RULE + '; every whole target also as a float (same answer)'
ASSUMPTIONS = ['athlon_score itself is checked against the exact formula by C01; here it is used as '
               'the forward function of the round trip, as the property states']
RULE = RULE + '; seven targets per row also in a child interpreter whose athlib is a zip archive of the package' + '; unknown pairs also through the forward function at ages None / 20 / 50, and every kind of call as the first one after import'

UNKNOWN = [('M', 'XYZ'), ('X', '100'), ('F', '110H'), ('M', '100H'), ('', ''), ('m', 'hj '), ('M', 'NA'), ('?', '100'),
           ('M', '100-Y'), ('M', 'M-100'), ('U-20', '100'), ('F', 'PEN-I'), ('M-', '100'), ('M', '-100'), ('F', '600'), ('M', '%s'),
           (None, '100'), ('M', None), ('F', 150), (5, '100')]
TIMED_WORSE = +1
FIELD_WORSE = -1


def _kind(event):
    if event.upper() in ('HJ', 'PV', 'LJ', 'TJ', 'SP', 'DT', 'HT', 'JT', 'WT'):
        return 'field'
    return 'timed'


_snap = None


def reset_state():
    """Module state of athlon_score back to what it was right after import (lazy table not yet built)."""
    global _snap
    from vlib.statesnap import Snap
    if _snap is None:
        _snap = Snap(mod('athlon_score'))
    _snap.restore()


reset_state()        # snapshot at import, before anything is computed


def examine(case):
    if case.get('kind') == 'zip':
        return examine_zip(case)
    if case.get('cold'):
        # the call is the FIRST one made after import: lazily built tables do not exist yet
        reset_state()
        vs = examine(dict(case, cold=False))
        for v in vs:
            v['sig'] = v['sig'] + ['first-call-after-import']
            v['case'] = case
        return vs
    g, e, s = case['gender'], case['event'], case['target']
    out = []
    r = call(athlib.athlon_performance_needed, g, e, s)
    if case.get('unknown'):
        if r != ('ret', None):
            out.append(V('unknown-pair-gives-none', ['unknown', r[0], r[1] if r[0] == 'exc' else 'value'],
                         case, r, None))
        # the forward function of the round trip gives no answer for the pair either - at any age
        for age in (None, 20, 50):
            if (g, e) in (('M', '100H'), ('M', '80H'), ('F', '80H')):
                break          # veterans' hurdles: scored as 110H / 100H by the forward function, no row for the inverse
            kw = {} if age is None else {'age': age}
            r2 = call(athlib.athlon_score, g, e, 12.5, **kw)
            if r2 == ('ret', None):
                # ... whatever stands in the mark field of the results sheet for a pair the table does not know
                for mk in ('DQ', 'NM', '', 'DNF', '12.5', None, 0):
                    r3 = call(athlib.athlon_score, g, e, mk, **kw)
                    if r3 != ('ret', None):
                        r2 = r3
                        break
            if r2 != ('ret', None):
                out.append(V('unknown-pair-gives-none', ['unknown', 'score', r2[1] if r2[0] == 'exc' else 'value',
                                                         'age' if kw else 'noage'], dict(case, age=age), r2, None))
                break
        return out
    if r[0] == 'exc':
        return [V('needed-returns', ['needed-raises', r[1]], case, r, 'a mark')]
    p = r[1]
    if not isinstance(p, (int, float)) or isinstance(p, bool):
        return [V('needed-returns', ['needed-type', type(p).__name__], case, p, 'a number')]
    c = int(round(p * 100))
    if abs(p * 100 - c) > 1e-6 or c < 0:
        return [V('on-grid', ['off-grid', _kind(e)], case, p, 'a non-negative mark on the 0.01 grid')]
    want = max(s, 0)
    got = call(athlib.athlon_score, g, e, p)
    if got[0] != 'ret' or not isinstance(got[1], int) or got[1] < want:
        out.append(V('achieves-target', ['achieves', _kind(e)], dict(case, needed=p), got, '>= %d' % want))
    if s >= 1:
        step = TIMED_WORSE if _kind(e) == 'timed' else FIELD_WORSE
        worse = (c + step) / 100.0
        gw = call(athlib.athlon_score, g, e, worse)
        if gw[0] != 'ret' or not isinstance(gw[1], int) or gw[1] >= s:
            out.append(V('minimal', ['minimal', _kind(e)], dict(case, needed=p, worse=worse), gw, '< %d' % s))
    if s < 0:
        z = call(athlib.athlon_performance_needed, g, e, 0)
        if z != r:
            out.append(V('negative-as-zero', ['negative', _kind(e)], case, r, z))
    # the same whole target in another numeric carrier (800.0 is the target 800): the same answer
    rf = call(athlib.athlon_performance_needed, g, e, float(s))
    if rf[0] != 'ret' or rf[1] != p:
        out.append(V('minimal' if rf[0] == 'ret' else 'needed-returns', ['target-carrier', 'float', _kind(e)],
                     dict(case, carrier='float'), rf[:3], p))
    return out


ZIP_CHILD = r"""
import json, sys
import athlib
assert '.zip' in athlib.__file__, athlib.__file__
out = []
for g, e, s in json.loads(sys.stdin.read()):
    try:
        p = athlib.athlon_performance_needed(g, e, s)
        out.append([p, athlib.athlon_score(g, e, p)])
    except Exception as exc:
        out.append(['raises', type(exc).__name__])
print('RESULT' + json.dumps(out))
"""


def zipped(triples):
    """The package deployed as a zip archive (zipapp / zipimport / a bundler): needed mark and its score for every triple,
    computed in a child interpreter whose only athlib is the archive.  (Scoring without an age reads no data file.)"""
    import json, os, subprocess, sys, tempfile, zipfile
    from vlib.harness import REPO
    src = os.path.join(REPO, 'athlib')
    with tempfile.TemporaryDirectory() as tmp:
        zp = os.path.join(tmp, 'bundle.zip')
        with zipfile.ZipFile(zp, 'w') as z:
            for d, ds, fs in os.walk(src):
                ds[:] = sorted(x for x in ds if x != '__pycache__')
                for f in sorted(fs):
                    full = os.path.join(d, f)
                    z.write(full, os.path.join('athlib', os.path.relpath(full, src)))
        env = {k: v for k, v in os.environ.items() if k != 'VERIF_AMBIENT'}
        env['PYTHONPATH'] = zp
        r = subprocess.run([sys.executable, '-c', ZIP_CHILD], input=json.dumps(triples), env=env, cwd=tmp,
                           stdout=subprocess.PIPE, stderr=subprocess.PIPE, text=True)
    for line in r.stdout.splitlines():
        if line.startswith('RESULT'):
            return json.loads(line[6:])
    return [['child-failed', r.stderr[-300:]]] * len(triples)


def examine_zip(case):
    g, e, s = case['gender'], case['event'], case['target']
    p = call(athlib.athlon_performance_needed, g, e, s)
    want = [p[1], call(athlib.athlon_score, g, e, p[1])[1]] if p[0] == 'ret' else None
    got = zipped([[g, e, s]])[0]
    if want is not None and got != want:
        return [V('achieves-target', ['zip-archive-differs', str(got[0]) if got[0] in ('raises', 'child-failed') else 'value'],
                  case, got, want)]
    return []


def run(ctx):
    tab = mod('athlon_score')._scoring_table
    rows = [(o['gender'], o['event_code']) for o in tab]
    for g, e in rows:
        # the ESAA option of the score must not leak into later answers (it shares the M-800 row)
        call(athlib.athlon_score, 'M', '800', 120.0, esaa=True)
        for s in range(-10, 1501):
            case = {'kind': 'needed', 'gender': g, 'event': e, 'target': s}
            ctx.count()
            vs = examine(case)
            ctx.violations(vs)
            if s >= 1:
                ctx.nontrivial((g, e, s), case if s in (1, 700, 1500) and e in ('100', 'PV', 'JT') else None)
            ctx.label('timed' if _kind(e) == 'timed' else 'field')
    # other spellings of the same rows: the scoring key is case-insensitive, so 'f' / 'hj' / 'Hj' name the same row and
    # the inverse property must hold for them just the same (every 25th target)
    for g, e in rows:
        for gs, es in ((g.lower(), e.lower()), (g, e.lower()), (g.lower(), e), (g, e.title())):
            if (gs, es) == (g, e):
                continue
            for s in list(range(-3, 1501, 25)) + [1, 2, 1500]:
                case = {'kind': 'needed', 'gender': gs, 'event': es, 'target': s}
                ctx.count()
                ctx.label('other-spelling')
                vs = examine(case)
                for v in vs:
                    v['sig'] = v['sig'] + ['other-spelling']
                ctx.violations(vs)
    for g, e in UNKNOWN:
        for s in (-5, 0, 1, 500, 1500):
            case = {'kind': 'needed', 'gender': g, 'event': e, 'target': s, 'unknown': True}
            ctx.count()
            ctx.label('unknown-pair')
            ctx.violations(examine(case))
    # every kind of call as the first one after import (the lazily built table does not exist yet): unknown pairs, every
    # row, other spellings
    for g, e in UNKNOWN:
        for s in (-5, 0, 500):
            case = {'kind': 'needed', 'gender': g, 'event': e, 'target': s, 'unknown': True, 'cold': True}
            ctx.count()
            ctx.label('first-call-after-import')
            ctx.violations(examine(case))
    for g, e in rows:
        for gs, es, s in ((g, e, 700), (g.lower(), e.lower(), 1), (g, e, -1)):
            case = {'kind': 'needed', 'gender': gs, 'event': es, 'target': s, 'cold': True}
            ctx.count()
            ctx.label('first-call-after-import')
            ctx.violations(examine(case))
    # the same round trip in an interpreter whose athlib is a zip archive of the package: the same marks, the same scores
    triples = [[g, e, s_] for g, e in rows for s_ in (-10, 0, 1, 437, 700, 999, 1500)]
    got = zipped(triples)
    for t, gt in zip(triples, got):
        p_ = call(athlib.athlon_performance_needed, *t)
        want = [p_[1], call(athlib.athlon_score, t[0], t[1], p_[1])[1]] if p_[0] == 'ret' else None
        ctx.count()
        ctx.label('package-as-zip-archive')
        if want is not None and gt != want:
            ctx.violations(examine_zip({'kind': 'zip', 'gender': t[0], 'event': t[1], 'target': t[2]}))
    reset_state()
    ctx.extra['rows'] = len(rows)
    ctx.exhaustive = True
