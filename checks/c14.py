"""C14 — WMA age grading is defined, consistent and spelling-independent on its domain."""
import json
import math
import os
import random

import athlib
from athlib import codes
from vlib.harness import V, derive_seed, run_shards, REPO
from vlib.lib import call

PROPERTY = 'C14'
RULE = ('tables 2015 and 2023 (year= as int) and the combined-events table x every tabulated event as written and in lower '
        'case (when that spelling is itself an accepted code) x gender spellings {m f M F male Male men female FEMALE Female} x '
        'every integer and half-integer age from the first non-null column of the row to 20 years past the last column (an '
        'age is covered when the cells it needs are non-null); grades on a grid of performances 0.5x..2x the open best at 8 '
        'ages per row; factor clauses complete in both tiers, grades at 8 ages per row (quick) / every integer age (thorough); oracle = the JSON cell read '
        'independently (integer ages), betweenness (half-integers) and monotone interpolation over quarter ages inside each one-year interval, last column beyond the table, identical factor / best / '
        'grade for all spellings, grade == standard / time or mark / standard to 1e-12, grade(best) == 1.0 exactly where the '
        'factor is 1, strictly better performance => strictly higher grade; non-trivial = a non-canonical spelling, an age at a '
        'table end / first non-null column / beyond the last column, or a half-integer age; distinct (table, gender, event, age)')
ASSUMPTIONS = ['the combined-events table carries no open bests: only the factor and spelling clauses apply to wma_athlon_*',
               'rows with null cells in the middle (2015 women\'s pole vault above 90) are covered up to the last non-null cell']

GENDERS = {'m': ['m', 'M', 'male', 'Male', 'men'], 'f': ['f', 'F', 'female', 'FEMALE', 'Female']}

_data = {}


def table(year):
    if year not in _data:
        fn = 'wma-athlons-data.json' if year == 'athlon' else 'wma-data-%s.json' % year
        with open(os.path.join(REPO, 'athlib', 'wma', fn)) as f:
            _data[year] = json.load(f)
    return _data[year]


def row_cells(year, g, event):
    """{age: cell} for a row, and the open best (None for the combined-events table)."""
    d = table(year)
    for row in d[g]:
        if row[0] == event:
            if year == 'athlon':
                return {a: row[k] for k, a in enumerate(d['ages']) if k >= 1}, None
            return {a: row[3 + k] for k, a in enumerate(d['ages'])}, row[2]
    return None, None


def f_factor(year, gender, age, event):
    if year == 'athlon':
        return call(athlib.wma_athlon_age_factor, gender, age, event)
    return call(athlib.wma_age_factor, gender, age, event, year=year)


def f_best(year, gender, event):
    return call(athlib.wma_world_best, gender, event, year=year)


def f_grade(year, gender, age, event, perf):
    if year == 'athlon':
        return call(athlib.wma_athlon_age_grade, gender, age, event, perf)
    return call(athlib.wma_age_grade, gender, age, event, perf, year=year)


def lower_ok(event):
    lo = event.lower()
    if lo == event or not codes.PAT_EVENT_CODE.match(lo):
        return None
    if not any(p.match(lo) for p in (codes.PAT_THROWS, codes.PAT_JUMPS, codes.PAT_TRACK, codes.PAT_ROAD)):
        return None
    return lo


def is_timed(event):
    return not (codes.PAT_THROWS.match(event) or codes.PAT_JUMPS.match(event))


def examine(case):
    k = case['kind']
    year, g, event = case['year'], case['g'], case['event']
    cells, best = row_cells(year, g, event)
    if cells is None:
        return []
    out = []
    ages = sorted(cells)
    last_age = ages[-1]
    nonnull = [a for a in ages if cells[a] is not None]
    if year != 'athlon':
        # contiguous non-null run from the first non-null cell
        run_end = nonnull[0]
        for a in ages:
            if a > run_end and cells[a] is not None and cells.get(a - 1) is not None:
                run_end = a
            elif a > run_end:
                break
    if k == 'factor':
        age = case['age']
        r = f_factor(year, g, age, event)
        base = {'kind': 'factor', 'year': year, 'g': g, 'event': event, 'age': age}
        where = 'beyond-last-column' if age > last_age else 'first-column' if age == nonnull[0] else 'inside'
        if r[0] == 'exc':
            return [V('factor-defined', ['factor-raises', r[1], where, 'athlon' if year == 'athlon' else 'single'], base, r[:3])]
        f = r[1]
        if not isinstance(f, (int, float)) or isinstance(f, bool) or not math.isfinite(f) or f <= 0:
            return [V('factor-finite-positive', ['factor-not-finite-positive', where], base, f)]
        if year == 'athlon':
            band = min(5 * (int(age) // 5), last_age)
            want = cells[band]
            if f != want:
                out.append(V('factor-equals-table', ['factor-cell', 'athlon', where], base, f, want))
        elif age > last_age:
            if f != cells[last_age]:
                out.append(V('beyond-last-column-uses-last', ['factor-cell', 'beyond'], base, f, cells[last_age]))
        elif age == int(age):
            if f != cells[int(age)]:
                out.append(V('factor-equals-table', ['factor-cell', 'integer-age'], base, f, cells[int(age)]))
        else:
            lo, hi = cells[math.floor(age)], cells[math.ceil(age)]
            if not (min(lo, hi) - 1e-12 <= f <= max(lo, hi) + 1e-12):
                out.append(V('half-integer-between-neighbours', ['factor-between'], base, f, [lo, hi]))
        # spelling independence of the factor
        for sp in GENDERS[g]:
            for ev in [event] + ([lower_ok(event)] if lower_ok(event) else []):
                if sp == g and ev == event:
                    continue
                r2 = f_factor(year, sp, age, ev)
                if r2 != r:
                    out.append(V('spelling-independent', ['spelling', 'factor', 'gender' if ev == event else 'event-case'],
                                 dict(base, spelling=[sp, ev]), r2[:3], f))
                    return out
        return out
    if k == 'interval':
        a = case['age']
        seq = [f_factor(year, g, a + q, event) for q in (0, 0.25, 0.5, 0.75, 1)]
        if all(r[0] == 'ret' for r in seq):
            vals = [r[1] for r in seq]
            up = all(x <= y + 1e-12 for x, y in zip(vals, vals[1:]))
            down = all(x >= y - 1e-12 for x, y in zip(vals, vals[1:]))
            if not (up or down):
                out.append(V('half-integer-between-neighbours', ['factor-interval-not-monotone'],
                             {'kind': 'interval', 'year': year, 'g': g, 'event': event, 'age': a}, vals))
        return out
    if k == 'grade':
        age = case['age']
        base = {'kind': 'grade', 'year': year, 'g': g, 'event': event, 'age': age}
        fr = f_factor(year, g, age, event)
        br = f_best(year, g, event)
        if fr[0] == 'exc':
            return []      # reported by the factor case
        if br[0] == 'exc' or br[1] != best:
            return [V('best-equals-table', ['best', br[1] if br[0] == 'exc' else 'value'], base, br[:3], best)]
        f = fr[1]
        std = best / f
        timed = is_timed(event)
        prev = None
        mults = [0.5, 0.8, 0.95, 1.0, 1.05, 1.3, 2.0]
        perfs = [round(best * m, 2) for m in mults]
        perfs = sorted(set(p for p in perfs if p > 0), reverse=timed)     # from worst to best
        for p in perfs:
            gr = f_grade(year, g, age, event, p)
            if gr[0] == 'exc':
                return out + [V('grade-defined', ['grade-raises', gr[1]], dict(base, perf=p), gr[:3])]
            want = (std / p) if timed else (p / std)
            if not math.isclose(gr[1], want, rel_tol=1e-12):
                out.append(V('grade-equals-standard-ratio', ['grade-value', 'timed' if timed else 'field'], dict(base, perf=p), gr[1], want))
                break
            if prev is not None and not gr[1] > prev:
                out.append(V('better-grades-higher', ['grade-monotone'], dict(base, perf=p), [prev, gr[1]]))
                break
            prev = gr[1]
        if f == 1:
            g1 = f_grade(year, g, age, event, best)
            if g1 != ('ret', 1.0):
                out.append(V('best-grades-one', ['grade-of-best'], dict(base, perf=best), g1[:3], 1.0))
        # spelling independence of best and grade (also text performances)
        p = perfs[len(perfs) // 2]
        ref = f_grade(year, g, age, event, p)
        for sp in GENDERS[g]:
            for ev in [event] + ([lower_ok(event)] if lower_ok(event) else []):
                if sp == g and ev == event:
                    continue
                b2 = f_best(year, sp, ev)
                if b2 != br:
                    out.append(V('spelling-independent', ['spelling', 'best', 'gender' if ev == event else 'event-case'],
                                 dict(base, spelling=[sp, ev]), b2[:3], best))
                    return out
                g2 = f_grade(year, sp, age, ev, p)
                if g2 != ref:
                    out.append(V('spelling-independent', ['spelling', 'grade', 'gender' if ev == event else 'event-case'],
                                 dict(base, spelling=[sp, ev], perf=p), g2[:3], ref[1]))
                    return out
        return out
    return out


def ages_for(year, g, event, rng=None):
    cells, best = row_cells(year, g, event)
    ages = sorted(cells)
    nonnull = [a for a in ages if cells[a] is not None]
    first = nonnull[0]
    # contiguous covered run
    end = first
    while end + 1 in cells and cells[end + 1] is not None:
        end += 1
    out = []
    if year == 'athlon':
        return [a for a in range(first, ages[-1] + 21)] + [a + 0.5 for a in range(first, ages[-1] + 20)]
    for a in range(first, end + 1):
        out.append(a)
        if a + 1 <= end:
            out.append(a + 0.5)
    if end == ages[-1]:
        out += [end + 0.5, end + 1, end + 5.5, end + 20]
    return out


def shard(ctx, payload):
    year, g, event, thorough = payload
    ages = ages_for(year, g, event)
    cells, best = row_cells(year, g, event)
    first, last = ages[0], max(cells)
    for age in ages:
        case = {'kind': 'factor', 'year': year, 'g': g, 'event': event, 'age': age}
        ctx.count()
        vs = examine(case)
        if vs:
            ctx.violations(vs)
        ctx.nontrivial((year, g, event, age), case if (age in (first, last + 20) and event in ('100', 'PV', 'MAR', 'LH')) else None)
    if year != 'athlon':
        for age in [a for a in ages if a == int(a) and a + 1 in ages][::(1 if thorough else 4)]:
            ctx.count(5)
            vs = examine({'kind': 'interval', 'year': year, 'g': g, 'event': event, 'age': age})
            if vs:
                ctx.violations(vs)
            ctx.label('interval-cases')
        gr_ages = sorted(set([ages[0], ages[len(ages) // 3], ages[len(ages) // 2], ages[-1]] +
                             [a for a in (30, 35, 50.5, 72, 90) if ages[0] <= a <= last]))
        if thorough:
            gr_ages = sorted(set(gr_ages) | set(a for a in ages if a == int(a)))
        for age in gr_ages:
            case = {'kind': 'grade', 'year': year, 'g': g, 'event': event, 'age': age}
            ctx.count(8)
            vs = examine(case)
            if vs:
                ctx.violations(vs)
            ctx.label('grade-cases')
    ctx.label('rows')


def run(ctx):
    thorough = ctx.tier == 'thorough'
    payloads = []
    for year in (2015, 2023, 'athlon'):
        d = table(year)
        for g in 'mf':
            for row in d[g]:
                payloads.append((year, g, row[0], thorough))
    run_shards(ctx, 'checks.c14', 'shard', payloads, disjoint=True)
    ctx.extra['rows'] = len(payloads)
