"""C16 — concurrent calls give the same answers as single-threaded ones."""
import contextlib
import io
import itertools
import os
import random
import sys

import hypothesis
from hypothesis import given, settings, strategies as st, HealthCheck, Phase

import jsonschema

import athlib
from vlib import dsched
from vlib.harness import V, derive_seed, run_shards
from vlib.lib import mod

PROPERTY = 'C16'
RULE = ('scenarios = 2 or 3 calls (equal and different arguments) on shared module state - combined-events score / '
        'performance-needed, Hungarian score, Sportshall score, the shared WMA graders behind wma_age_factor / wma_age_grade / '
        'wma_world_best / wma_athlon_*, the validation caches filled to their limit - each in a cold (lazy tables reset) and a '
        'warm variant; schedules: the harness owns the scheduler (threads serialised by sys.settrace, pre-empted only at athlib '
        'source lines): ALL single pre-emptions at every yield point of every thread and first-runner choice, two pre-emptions '
        'exhaustively when one of them falls in the first lines of a call (where lazy initialisation happens) or the product of '
        'yield counts is small, seeded / Hypothesis-drawn otherwise, 3 threads by drawn schedules; '
        'oracle: each thread\'s (return | exception type, value) equals the same call run alone on the same initial state; '
        'non-trivial = a schedule whose pre-emption falls inside a function that touches the shared objects (athlib frames '
        'between the first and the last access), measured as: the switch happened strictly inside the pre-empted call '
        '(0 < index < yield count); distinct (scenario, switch points)')
ASSUMPTIONS = ['interleavings are explored at athlib source-line granularity with at most two forced pre-emptions (three threads: '
               'drawn); switches inside a single line or inside json / jsonschema internals are out of reach',
               'a 50 ms watchdog releases all threads when the token holder blocks on a lock; it can only change the schedule']
RULE = RULE + '; GENERATED scenarios besides the listed ones: the PAIR MATRIX (every pair of catalogue calls working on the same shared object - each grader incl. non-tabulated distances through every entry point, the scoring tables, the caches -, cold) and any two or three calls of the catalogue (also from different modules) after a generated single-threaded prefix of 0-3 other calls (partially warm process), caches optionally at their limit; scenarios cover every scoring system and helper, calls that raise, every pair of different functions per shared grader and a cache hit on the newest entry; all body x body double pre-emptions of the two entered public functions'

GENDERS = 'mf'


_SYNTH16 = os.path.join(os.path.dirname(os.path.abspath(__file__)), 'c16_synth')
_RECLIMIT = sys.getrecursionlimit()


def _stdout_guard():
    return contextlib.redirect_stdout(io.StringIO())


# ---------------------------------------------------------------------------------------------
# scenarios

_JS_RESOLVER = jsonschema.validators.RefResolver      # as the library left it at import


_SNAPS = None


def _module_snaps():
    """Import-time snapshots of every module-level name of the scoring modules (whatever a first call creates lazily - a
    table, a shared helper object - goes back to its just-imported value, also names added by a later change)."""
    global _SNAPS
    if _SNAPS is None:
        from vlib.statesnap import Snap
        import athlib.uka.agegroups as _ag
        import athlib.wma.agegrader as _wg
        _SNAPS = [Snap(mod(n)) for n in ('athlon_score', 'hungarian_score', 'sportshall_score', 'tyrving_score', 'qkids_score',
                                         'bulgarian_score', 'implements', 'utils')] + [Snap(_ag), Snap(_wg)]
    return _SNAPS


def _probe():
    """Process-wide settings a call may adjust around its work (saved, installed, restored): sampled at every yield point of
    a lone run to find the window in which they differ from their value at the start."""
    import decimal
    return (sys.getrecursionlimit(), id(jsonschema.validators.RefResolver), os.getcwd(), id(sys.stdout) if False else 0,
            decimal.getcontext().prec)


def setting_windows(sc):
    """Per thunk of scenario `sc`: the yield indices at which some process-wide setting differs from its value at the call's
    first line (empty for calls that leave them alone - all of today's)."""
    wins = []
    with _stdout_guard():
        for t in sc.thunks:
            sc.setup()
            r_, n_, (lines, probes) = dsched.solo(t, record_lines=True, probe=_probe)
            base = probes[0] if probes else None
            wins.append([i for i, v in enumerate(probes) if v != base])
    return wins


def window_doubles(sc, n, do, ctx, cap=300):
    """Two pre-emptions aimed at save / install / restore of process-wide settings: a is stopped while its setting is
    installed, b runs until ITS setting is installed, a resumes and finishes (restoring), then b goes on."""
    wins = setting_windows(sc)
    if not any(wins):
        return
    ctx.label('calls-adjusting-process-wide-settings')
    for a in range(n):
        for b in range(n):
            if a == b or not wins[a] or not wins[b]:
                continue
            wa = wins[a][::max(1, len(wins[a]) // 20)][:20]
            wb = wins[b][::max(1, len(wins[b]) // 15)][:15]
            for k1 in wa:
                for k2 in wb:
                    do([(a, k1, b), (b, k2, a)], a)
    ctx.label('setting-window-double-preemptions')


def reset_cold():
    for sn in _module_snaps():
        sn.restore()
    dsched.cooperative_locks('athlib')
    jsonschema.validators.RefResolver = _JS_RESOLVER   # process-wide setting of a third-party module the library adjusts
    if sys.getrecursionlimit() != _RECLIMIT:
        sys.setrecursionlimit(_RECLIMIT)               # process-wide interpreter setting: as at import
    mod('athlon_score')._scoring_objects = None
    mod('hungarian_score')._table = None
    mod('sportshall_score')._DB = None
    # the shared graders go back to their just-imported state (whatever attributes a first call creates lazily -
    # data, scratch, locks - are dropped), so "very first call" really is one
    from checks.c14 import reset_graders
    reset_graders()
    _clear_caches()


def _clear_caches():
    # by name where the names exist (the utils snapshot above empties module-level containers under any name)
    u = mod('utils')
    for nm in ('_schema_valid_cache', '_valid_against_schema_cache'):
        c = getattr(u, nm, None)
        if hasattr(c, 'clear'):
            c.clear()


def fill_caches(n=20):
    u = mod('utils')
    a, b = getattr(u, '_schema_valid_cache', None), getattr(u, '_valid_against_schema_cache', None)
    for i in range(n):
        if isinstance(a, dict):
            a[('filler-%d' % i, None)] = True
        if isinstance(b, dict):
            b[('filler-%d' % i, 'x')] = True


U = None


def thunks_table():
    u = mod('utils')
    sp = mod('sportshall_score')
    def score_all():
        return tuple(athlib.athlon_score(o['gender'], o['event_code'], 12.5 if o['event_code'] not in ('HJ', 'PV') else 2.0)
                     for o in mod('athlon_score')._scoring_table)

    def hung_all():
        return tuple(athlib.hungarian_score(r[0], r[1], r[2], 50.0) for r in mod('hungarian_score').FACTORS[:60])

    def sh_all():
        marks = {'SLJ': '2.00', 'SHJ': '0.50', 'STJ': '6.00', 'SP': '8.00', 'BAL': '40', 'SPB': '50', 'TART': '15',
                 'OHT': '8.00', '32H': '14.0', 'CHT': '7.00', '100': '30.0', 'JT': '20', '800': '180'}
        return tuple(sp.sportshall_score(k, v) for k, v in sorted(marks.items()))
    return {
        'score-all': score_all, 'hung-all': hung_all, 'sh-all': sh_all,
        # calls that RAISE in a single-threaded program too (no factor row / unknown event / missing file): the other
        # caller must still get its own answer
        'score-raises': lambda: athlib.athlon_score('M', '3000', 560.0, age=50),
        'factor-raises': lambda: athlib.wma_age_factor('m', 50, 'NOPE'),
        'grade-raises': lambda: athlib.wma_age_grade('f', 40, 'LJ', 'fast'),
        'va-missing': lambda: u.valid_against_schema('sample-jsons/no-such-file.json', 'json/athlete.json'),
        'sh-SHJ': lambda: sp.sportshall_score('SHJ', '0.50'),
        'score-M100': lambda: athlib.athlon_score('M', '100', 10.5),
        'score-FHJ': lambda: athlib.athlon_score('F', 'HJ', 1.8),
        'score-M100-age': lambda: athlib.athlon_score('M', '100', 12.5, age=52),
        'score-FSP-age': lambda: athlib.athlon_score('F', 'SP', 9.5, age=67),
        'needed-MPV': lambda: athlib.athlon_performance_needed('M', 'PV', 800),
        'needed-F800': lambda: athlib.athlon_performance_needed('F', '800', 900),
        'hung-M100': lambda: athlib.hungarian_score('M', 'OUT', '100', 10.5),
        'hung-FHJ': lambda: athlib.hungarian_score('F', 'OUT', 'HJ', 1.8),
        'sh-SLJ': lambda: sp.sportshall_score('SLJ', '2.00'),
        # number carriers (whatever they score single-threaded, they score the same from any thread)
        'sh-floats': lambda: (sp.sportshall_score('SLJ', 2.8), sp.sportshall_score('32H', 14.3), sp.sportshall_score('SP', 8)),
        'tyr-floats': lambda: (athlib.tyrving_score('M', 15, '100', 12.3), athlib.tyrving_score('F', 12, 'HJ', 1.35)),
        'score-decimal-ish': lambda: (athlib.athlon_score('M', '100', 10.51), athlib.athlon_score('F', 'LJ', 6.1, age=40)),
        'sh-800': lambda: sp.sportshall_score('800', '150'),
        'factor-M50-100': lambda: athlib.wma_age_factor('m', 50, '100'),
        'factor-F72-MAR': lambda: athlib.wma_age_factor('f', 72.5, 'MAR'),
        'factor-M50-7K': lambda: athlib.wma_age_factor('m', 50, '7K'),
        'factor15-M60-HJ': lambda: athlib.wma_age_factor('m', 60, 'HJ', year=2015),
        'grade-M50-5K': lambda: athlib.wma_age_grade('m', 50, '5K', '16:23'),
        'grade-F40-LJ': lambda: athlib.wma_age_grade('f', 40, 'LJ', 5.5),
        'best-F-MAR': lambda: athlib.wma_world_best('f', 'MAR'),
        'best-M-8047': lambda: athlib.wma_world_best('m', '8047'),
        # non-tabulated distances (interpolated between two rows) through every entry point of each grader
        'best-M-7K': lambda: athlib.wma_world_best('m', '7K'),
        'grade-F45-11K': lambda: athlib.wma_age_grade('f', 45, '11K', '50:00'),
        'factor-F61-5.3M': lambda: athlib.wma_age_factor('f', 61, '5.3M'),
        'best15-F-7K': lambda: athlib.wma_world_best('f', '7K', year=2015),
        'factor15-M50-11K': lambda: athlib.wma_age_factor('m', 50, '11K', year=2015),
        'grade15-M70-7K': lambda: athlib.wma_age_grade('m', 70, '7K', '40:00', year=2015),
        'afactor-M66-60H': lambda: athlib.wma_athlon_age_factor('M', 66, '60H'),
        'afactor-F69-LJ': lambda: athlib.wma_athlon_age_factor('f', 69, 'LJ'),
        'afactor-M50-100': lambda: athlib.wma_athlon_age_factor('M', 50, '100'),
        'agrade-M50-LJ': lambda: athlib.wma_athlon_age_grade('M', 50, 'LJ', 5.5),
        'agrade-F45-800': lambda: athlib.wma_athlon_age_grade('f', 45, '800', 150.0),
        'abest-M-SP': lambda: athlib.aag.world_best('m', 'SP'),
        'grade15-F40-LJ': lambda: athlib.wma_age_grade('f', 40, 'LJ', 5.5, year=2015),
        'best15-M-5K': lambda: athlib.wma_world_best('m', '5K', year=2015),
        'tyr-M15-100-hand': lambda: athlib.tyrving_score('M', 15, '100', '12.3'),
        'tyr-M15-100-auto': lambda: athlib.tyrving_score('M', 15, '100', '12.30'),
        'tyr-F12-HJ': lambda: athlib.tyrving_score('F', 12, 'HJ', 1.35),
        'tyr-F14-800': lambda: athlib.tyrving_score('F', 14, '800', '2.15.3'),
        'qk-75': lambda: athlib.qkids_score('QKWL', '75', '11.5'),
        'qk-LJ': lambda: athlib.qkids_score('wessex league', 'LJ', 3.5),
        'bg-100': lambda: mod('bulgarian_score').score('U16', 'M', '100', 12.5),
        'bg-LJ': lambda: mod('bulgarian_score').score('U16', 'F', 'LJ', 4.5),
        'uka-TF': lambda: athlib.calc_uka_age_group('2010-09-01', __import__('datetime').date(2024, 3, 10), 'TF'),
        'uka-XC': lambda: athlib.calc_uka_age_group(__import__('datetime').date(1960, 2, 29), __import__('datetime').date(2024, 3, 10), 'XC'),
        'perf-100': lambda: athlib.check_performance_for_discipline('100', '9,58'),
        'perf-MAR': lambda: athlib.check_performance_for_discipline('MAR', '2:03:59', gender='f'),
        'perf-DT': lambda: athlib.check_performance_for_discipline('DT', '74.08', gender='m'),
        'norm-a': lambda: athlib.normalize_event_code(' 110h 91.40cm '),
        'norm-b': lambda: athlib.normalize_event_code('dt1.500kg'),
        'impl-a': lambda: athlib.get_specific_event_code('SP', 'M', 'V60'),
        'impl-b': lambda: athlib.get_specific_event_code('JT', 'F', 'U15'),
        'sv-race-3': lambda: u.schema_valid('json/race.json'),
        'sv-athlete-4': lambda: u.schema_valid('json/athlete.json', validator=jsonschema.Draft4Validator),
        'sv-athlete-3': lambda: u.schema_valid('json/athlete.json'),
        'va-athlete': lambda: u.valid_against_schema('sample-jsons/athlete.json', 'json/athlete.json'),
        'va-athlete-bad': lambda: u.valid_against_schema('sample-jsons/athlete_invalid.json', 'json/athlete.json'),
        'va-perf': lambda: u.valid_against_schema('sample-jsons/performance.json', 'json/performance.json'),
        # schemas with internal / cross-file references (whatever a resolver keeps must be the caller's own)
        'va-race': lambda: u.valid_against_schema('sample-jsons/race_iffleymiles_2016_600mA.json', 'json/race.json'),
        'va-event': lambda: u.valid_against_schema('sample-jsons/event.json', 'json/event.json'),
        'va-competition': lambda: u.valid_against_schema('sample-jsons/competition.json', 'json/competition.json'),
        'sv-race-7': lambda: u.schema_valid('json/race.json', validator=jsonschema.Draft7Validator),
        # a valid document nested 300 levels deep (more than the default recursion limit allows: whatever a lone caller gets -
        # today RecursionError - every concurrent caller gets too; process-wide interpreter settings are not per caller)
        'va-deep': lambda: u.valid_against_schema(os.path.join(_SYNTH16, 'deep_doc.json'), os.path.join(_SYNTH16, 'recursive_schema.json')),
    }


_module_snaps()          # at import: nothing has been called yet


SCENARIOS = [
    # name, thunk names, cache pre-fill
    ('score-same', ['score-M100', 'score-M100'], 0),
    ('score-diff', ['score-M100', 'score-FHJ'], 0),
    ('score-needed', ['score-FHJ', 'needed-MPV'], 0),
    ('needed-needed', ['needed-MPV', 'needed-F800'], 0),
    ('score-age-diff', ['score-M100-age', 'score-FSP-age'], 0),
    ('score-age-afactor', ['score-M100-age', 'afactor-F69-LJ'], 0),
    ('hungarian-same', ['hung-M100', 'hung-M100'], 0),
    ('hungarian-diff', ['hung-M100', 'hung-FHJ'], 0),
    ('sportshall-diff', ['sh-SLJ', 'sh-800'], 0),
    ('sportshall-shj', ['sh-800', 'sh-SHJ'], 0),
    # one caller initialises, the other reads EVERY row / event: a half-finished table shows whichever entry it concerns
    ('sportshall-all', ['sh-SLJ', 'sh-all'], 0),
    ('score-all', ['score-FHJ', 'score-all'], 0),
    ('hungarian-all', ['hung-M100', 'hung-all'], 0),
    ('factor-same', ['factor-M50-100', 'factor-M50-100'], 0),
    ('factor-diff', ['factor-M50-100', 'factor-F72-MAR'], 0),
    ('factor-interp', ['factor-M50-7K', 'factor-F72-MAR'], 0),
    ('factor-years', ['factor-M50-100', 'factor15-M60-HJ'], 0),
    ('grade-best', ['grade-M50-5K', 'best-F-MAR'], 0),
    ('grade-grade', ['grade-M50-5K', 'grade-F40-LJ'], 0),
    ('best-best', ['best-M-8047', 'best-F-MAR'], 0),
    ('afactor-diff', ['afactor-M66-60H', 'afactor-F69-LJ'], 0),
    # every pair of DIFFERENT functions on each shared grader object (2023, 2015, combined events), different rows
    ('factor-grade', ['factor-M50-100', 'grade-F40-LJ'], 0),
    ('factor-best', ['factor-M50-100', 'best-F-MAR'], 0),
    ('factor15-grade15', ['factor15-M60-HJ', 'grade15-F40-LJ'], 0),
    ('factor15-best15', ['factor15-M60-HJ', 'best15-M-5K'], 0),
    ('grade15-best15', ['grade15-F40-LJ', 'best15-M-5K'], 0),
    ('afactor-agrade', ['afactor-M50-100', 'agrade-M50-LJ'], 0),
    ('afactor-abest', ['afactor-M50-100', 'abest-M-SP'], 0),
    ('agrade-agrade', ['agrade-M50-LJ', 'agrade-F45-800'], 0),
    ('agrade-abest', ['agrade-F45-800', 'abest-M-SP'], 0),
    ('score-age-agrade', ['score-M100-age', 'agrade-M50-LJ'], 0),
    ('sv-sv-limit', ['sv-race-3', 'sv-athlete-4'], 20),
    ('sv-sv-limit-19', ['sv-race-3', 'sv-athlete-3'], 19),
    ('va-va-limit', ['va-athlete', 'va-perf'], 20),
    ('va-bad-limit', ['va-athlete-bad', 'va-perf'], 19),
    ('sv-va-limit', ['sv-athlete-4', 'va-athlete'], 20),
    ('raise-then-factor', ['score-raises', 'factor-M50-100'], 0),
    ('raise-then-grade', ['factor-raises', 'grade-F40-LJ'], 0),
    ('raise-in-grade', ['grade-raises', 'best-F-MAR'], 0),
    ('raise-then-afactor', ['score-raises', 'afactor-F69-LJ'], 0),
    ('va-missing-limit', ['va-missing', 'va-perf'], 19),
    # a cache HIT on the newest entry while the other caller's miss evicts at the limit
    ('sv-hit-newest', ['sv-race-3', 'sv-athlete-4'], -19),
    ('va-hit-newest', ['va-athlete', 'va-perf'], -19),
    ('va-bad-hit-newest', ['va-athlete-bad', 'va-perf'], -19),
    # ... and a HIT on the oldest entry
    ('sv-hit-oldest', ['sv-race-3', 'sv-athlete-4'], 'oldest'),
    ('va-hit-oldest', ['va-athlete', 'va-perf'], 'oldest'),
    # documents validated against schemas with references, uncached, side by side
    ('va-race-athlete', ['va-race', 'va-athlete'], 0),
    ('va-race-event', ['va-race', 'va-event'], 0),
    ('va-deep-athlete', ['va-athlete', 'va-deep'], 0),
    ('va-deep-deep', ['va-deep', 'va-deep'], 0),
    # the other scoring systems and helpers the library offers (no shared state today: any they acquire shows here)
    ('tyrving-hand-auto', ['tyr-M15-100-hand', 'tyr-M15-100-auto'], 0),
    ('tyrving-diff', ['tyr-F12-HJ', 'tyr-F14-800'], 0),
    ('tyrving-same', ['tyr-M15-100-hand', 'tyr-M15-100-hand'], 0),
    ('qkids-diff', ['qk-75', 'qk-LJ'], 0),
    ('bulgarian-diff', ['bg-100', 'bg-LJ'], 0),
    ('uka-diff', ['uka-TF', 'uka-XC'], 0),
    ('perf-diff', ['perf-100', 'perf-MAR'], 0),
    ('perf-field', ['perf-DT', 'perf-100'], 0),
    ('norm-diff', ['norm-a', 'norm-b'], 0),
    ('implements-diff', ['impl-a', 'impl-b'], 0),
    ('tyrving-qkids', ['tyr-M15-100-auto', 'qk-75'], 0),
    # per-thread settings (decimal context, locale ...) adjusted by whoever makes the first call
    ('sportshall-floats', ['sh-800', 'sh-floats'], 0),
    ('sportshall-floats-2', ['sh-floats', 'sh-floats'], 0),
    ('tyrving-floats', ['tyr-M15-100-hand', 'tyr-floats'], 0),
    ('score-floats', ['score-FHJ', 'score-decimal-ish'], 0),
    # three threads
    ('score-3', ['score-M100', 'score-FHJ', 'needed-F800'], 0),
    ('factor-3', ['factor-M50-100', 'factor-F72-MAR', 'grade-F40-LJ'], 0),
    ('va-3-limit', ['va-athlete', 'va-perf', 'va-athlete-bad'], 19),
]


class Scenario(object):
    def __init__(self, name, names, fill, warm, prefix=()):
        self.name, self.names, self.fill, self.warm = name, names, fill, warm
        T = thunks_table()
        self.thunks = [T[n] for n in names]
        self.prefix = [T[n] for n in prefix]      # generated scenarios: calls made single-threaded beforehand

    def setup(self):
        dsched.reset_locks()
        reset_cold()
        if self.warm:
            for t in self.thunks:
                try:
                    t()
                except Exception:
                    pass
            u = mod('utils')
            if self.fill:       # warm tables, but the caches at their limit without the scenario's own keys
                _clear_caches()
        if self.fill and self.fill != 'oldest' and self.fill > 0:
            fill_caches(self.fill)
        elif self.fill == 'oldest':
            # the FIRST caller's own answer is the OLDEST entry of a cache at its limit (a hit on it), the other caller's is
            # not cached (a miss whose insertion evicts - whichever end a cache evicts from is covered by this and the next)
            _clear_caches()
            try:
                with _stdout_guard():
                    self.thunks[0]()
            except Exception:
                pass
            fill_caches(19)
        elif self.fill and self.fill < 0:
            # the FIRST caller's own answer is cached as the newest entry of a cache at its limit (a hit), the other
            # caller's is not (a miss whose insertion evicts the newest entries)
            u = mod('utils')
            _clear_caches()
            fill_caches(-self.fill)
            try:
                with _stdout_guard():
                    self.thunks[0]()
            except Exception:
                pass
        for t in self.prefix:       # a partially warm process: some tables built, some caches holding entries, some not
            try:
                t()
            except Exception:
                pass

    def solo(self):
        out = []
        for t in self.thunks:
            self.setup()
            r, n, _ = dsched.solo(t)            # fully traced: the number of yield points
            self.setup()
            r = dsched.solo_result(t)           # the outcome to compare with (run as the tail of a scheduled run is)
            out.append((r, n))
        return out

    def run(self, schedule, first, expire_timeouts=False):
        self.setup()
        r = dsched.Run(self.thunks, schedule, first=first, expire_timeouts=expire_timeouts)
        res = r.run()
        return res, r


def norm(r):
    """Comparable outcome: value for returns, exception type for raises."""
    if r is None:
        return ('did-not-finish',)
    if r[0] == 'ret':
        return ('ret', repr(r[1]))
    return ('exc', r[1])


HUNG = []          # a thread of an earlier run of this process never returned: later runs would only repeat it


class Poisoned(Exception):
    pass


def examine(case):
    sc = Scenario(case['scenario'], case['thunks'], case.get('fill', 0), case.get('warm', False), case.get('prefix', ()))
    with _stdout_guard():
        want = [norm(r) for r, n in sc.solo()]
        res, run = sc.run([tuple(s) for s in case['schedule']], case.get('first', 0), bool(case.get('expire_timeouts')))
    got = [norm(r) for r in res]
    return judge(case, got, want, run)


def judge(case, got, want, run):
    """Violations of one executed schedule (outcomes `got`) against the single-threaded outcomes `want`."""
    if run.hung:
        HUNG.append(case['scenario'])
    out = []
    for i, w in enumerate(want):
        if w in (('did-not-finish',), ('exc', 'Deadlock')):
            HUNG.append(case['scenario'])
            return [V('same-as-single-threaded', ['alone-never-returns', case['scenario'].split('-')[0]],
                      case, {'thread': i, 'got': w}, 'the call made alone in a thread returns or raises')]
    for i, (g, w) in enumerate(zip(got, want)):
        if g != w:
            kind = 'never-returns' if g == ('did-not-finish',) or g == ('exc', 'Deadlock') else 'missing-answer' if g == ('ret', 'None') and w[0] == 'ret' else \
                'error' if g[0] == 'exc' else 'different-value' if w[0] == 'ret' else 'other'
            where = run.switches[0][3] if run.switches else 'no-switch'
            tok = case['scenario'].split('-')[0]
            if tok == 'gen':
                tok = 'gen:' + case['thunks'][i].split('-')[0]
            out.append(V('same-as-single-threaded', ['diverges', tok, kind,
                                                    g[1] if g[0] == 'exc' else 'value', 'warm' if case.get('warm') else 'cold'],
                         dict(case, switches=[list(s) for s in run.switches]), {'thread': i, 'got': g}, w))
            break
    return out


def shard(ctx, payload):
    import time as _t
    _t0 = _t.time()
    try:
        _shard(ctx, payload)
    except Poisoned:
        ctx.label('shard-abandoned-after-a-thread-never-returned')
    finally:
        ctx.extra.setdefault('shard_seconds', {})['%s/%s' % (payload[0], 'warm' if payload[3] else 'cold')] = round(_t.time() - _t0, 1)


def _shard(ctx, payload):
    name, names, fill, warm, thorough = payload
    sc = Scenario(name, names, fill, warm)
    rng = random.Random(derive_seed(ctx.seed, 'C16', name, warm))
    with _stdout_guard():
        solo = sc.solo()
    want = [norm(r) for r, n in solo]
    counts = [n for r, n in solo]
    n = len(names)
    base = {'scenario': name, 'thunks': names, 'fill': fill, 'warm': warm}
    ctx.extra.setdefault('yield_points', {})['%s/%s' % (name, 'warm' if warm else 'cold')] = counts

    def do(schedule, first):
        case = dict(base, schedule=[list(s) for s in schedule], first=first)
        with _stdout_guard():
            sc.setup()
            r = dsched.Run(sc.thunks, schedule, first=first)
            res = r.run()
            if r.timed_acquires and not r.hung:
                # the library waits for a lock only for a while: the same schedule once more with those waits running out
                sc.setup()
                r2 = dsched.Run(sc.thunks, schedule, first=first, expire_timeouts=True)
                res2 = r2.run()
                got2 = [norm(x) for x in res2]
                ctx.count()
                ctx.label('schedules-with-lock-waits-expiring')
                if got2 != want:
                    ctx.violations(judge(dict(case, expire_timeouts=True), got2, want, r2))
                    ctx.label('diverging-schedules')
        got = [norm(x) for x in res]
        ctx.count()
        if r.free:
            ctx.label('watchdog-released')
        if r.blocked_yields:
            ctx.label('schedules-with-a-blocked-lock-handover')
        if got != want:
            # judged on THIS run: a divergence that changes process-wide state may not show a second time
            ctx.violations(judge(case, got, want, r))
            ctx.label('diverging-schedules')
        if r.hung or HUNG:
            raise Poisoned()
        inside = any(0 < s[1] < counts[s[0]] for s in schedule)
        if inside:
            ctx.nontrivial((name, warm, first, tuple(schedule)),
                           dict(case, switched_in=[list(s[3:]) for s in r.switches]) if len(ctx.nt_keys) % 1500 == 2 else None)

    # every single pre-emption of every thread, each thread as first runner
    max_pts = 100000 if thorough else 400
    for a in range(n):
        pts = list(range(counts[a] + 1))
        if len(pts) > max_pts:
            stride = -(-len(pts) // max_pts)
            off = rng.randrange(stride)
            pts = pts[off::stride]
            ctx.label('strided-single-preemptions')
        for k in pts:
            for b in range(n):
                if b != a:
                    do([(a, k, b)], a)
    # two pre-emptions with one of them EARLY (the first lines of a call are where lazy initialisation is tested and
    # performed): a stops within its first lines x every point of b, and every point of a x b stops within its first lines
    early = 8 if thorough else 4
    cap_b, cap_a = (100000, 100000) if thorough else (120, 60)
    if not thorough and (n > 2 or name.startswith(('va', 'sv'))):
        cap_b, cap_a = 50, 25          # six ordered pairs / millisecond-long validations: keep the quick tier quick
    if not warm or thorough:
        for a in range(n):
            for b in range(n):
                if a == b:
                    continue
                step = max(1, -(-(counts[b] + 1) // cap_b))
                for k1 in range(min(early, counts[a] + 1)):
                    for k2 in range(rng.randrange(step), counts[b] + 1, step):
                        do([(a, k1, b), (b, k2, a)], a)
                stepa = max(1, -(-(counts[a] + 1) // cap_a))
                for k2 in range(min(early, counts[b] + 1)):
                    for k1 in range(early + rng.randrange(stepa), counts[a] + 1, stepa):
                        do([(a, k1, b), (b, k2, a)], a)
    ctx.label('early-window-double-preemptions')
    # two pre-emptions, both inside the BODY of the public function each caller entered (where a function saves, installs
    # and restores process-wide settings around its work): a stops at every body line, b runs to every body line, a resumes
    # and finishes, then b
    if not warm or thorough:
        bodies = []
        with _stdout_guard():
            for t in sc.thunks:
                sc.setup()
                r_, n_, lines = dsched.solo(t, record_lines=True)
                entry = lines[0][0] if lines else None
                bodies.append([i for i, (fn, ln) in enumerate(lines) if fn == entry])
        for a in range(n):
            for b in range(n):
                if a == b:
                    continue
                ba, bb = bodies[a], bodies[b]
                if not thorough and len(ba) * len(bb) > 400:
                    ba = ba[::max(1, len(ba) // 20)]
                    bb = bb[::max(1, len(bb) // 20)]
                for k1 in ba:
                    for k2 in bb:
                        do([(a, k1, b), (b, k2, a)], a)
        ctx.label('entry-body-double-preemptions')
    if not warm or thorough:
        window_doubles(sc, n, do, ctx)
    # two pre-emptions: a runs to k1, b runs to k2, back to a (then the rest)
    pairs = []
    for a in range(n):
        for b in range(n):
            if a != b:
                pairs.append((a, b))
    for a, b in pairs:
        total = (counts[a] + 1) * (counts[b] + 1)
        budget = (30000 if thorough else 250) // len(pairs)
        if total <= budget:
            combos = [(k1, k2) for k1 in range(counts[a] + 1) for k2 in range(counts[b] + 1)]
            ctx.label('exhaustive-double-preemptions')
        else:
            combos = [(rng.randrange(counts[a] + 1), rng.randrange(counts[b] + 1)) for _ in range(budget)]
        for k1, k2 in combos:
            c = [x for x in range(n) if x not in (a, b)]
            back = a if not c or rng.randrange(2) else c[0]
            do([(a, k1, b), (b, k2, back)], a)
    ctx.label('scenario-' + ('warm' if warm else 'cold'))


def group_of(name):
    """Which shared object a catalogue call works on (for the within-group pair matrix)."""
    head = name.split('-')[0]
    if head in ('score', 'needed'):
        return ['athlon'] + (['aag'] if 'age' in name or 'raises' in name or 'decimal' in name else [])
    if head in ('afactor', 'agrade', 'abest'):
        return ['aag']
    if head in ('factor', 'grade', 'best'):
        return ['ag2023']
    if head in ('factor15', 'grade15', 'best15'):
        return ['ag2015']
    if head in ('sv', 'va'):
        return ['cache']
    return [{'hung': 'hung', 'sh': 'sh', 'tyr': 'tyr', 'qk': 'qk', 'bg': 'bg', 'uka': 'uka', 'perf': 'perf', 'norm': 'norm',
             'impl': 'impl'}.get(head, head)]


def pair_matrix():
    """Every unordered pair (also a call with itself) of catalogue calls that work on the same shared object."""
    names = sorted(n for n in thunks_table() if not n.endswith('-all'))
    groups = {}
    for n in names:
        for g in group_of(n):
            groups.setdefault(g, []).append(n)
    pairs = []
    for g, ns in sorted(groups.items()):
        for i, a in enumerate(ns):
            for b in ns[i:]:
                if (a, b) not in pairs:
                    pairs.append((a, b))
    return pairs


def explore(ctx, rng, names, prefix, fill, per, single_cap):
    """One generated / matrix scenario (cold, after `prefix`): single pre-emptions at the first lines and at up to
    `single_cap` further points of every thread, early-window and sampled double pre-emptions."""
    n = len(names)
    sc = Scenario('gen', names, fill, False, prefix)
    with _stdout_guard():
        solo = sc.solo()
    want = [norm(r) for r, _n in solo]
    counts = [_n for r, _n in solo]
    base = {'scenario': 'gen', 'thunks': list(names), 'fill': fill, 'warm': False, 'prefix': list(prefix)}

    def do(schedule, first):
        case = dict(base, schedule=[list(s) for s in schedule], first=first)
        with _stdout_guard():
            sc.setup()
            r = dsched.Run(sc.thunks, schedule, first=first)
            res = r.run()
            if r.timed_acquires and not r.hung:
                sc.setup()
                r2 = dsched.Run(sc.thunks, schedule, first=first, expire_timeouts=True)
                got2 = [norm(x) for x in r2.run()]
                ctx.count()
                ctx.label('schedules-with-lock-waits-expiring')
                if got2 != want:
                    ctx.violations(judge(dict(case, expire_timeouts=True), got2, want, r2))
                    ctx.label('diverging-schedules')
        got = [norm(x) for x in res]
        ctx.count()
        if got != want:
            ctx.violations(judge(case, got, want, r))
            ctx.label('diverging-schedules')
        if r.hung or HUNG:
            raise Poisoned()
        if any(0 < s[1] < counts[s[0]] for s in schedule):
            ctx.nontrivial(('gen', tuple(names), tuple(prefix), fill, first, tuple(schedule)),
                           dict(case, switched_in=[list(s[3:]) for s in r.switches]) if len(ctx.nt_keys) % 700 == 3 else None)
    for a in range(n):
        total = counts[a] + 1
        if total <= single_cap:
            pts = set(range(total))
        else:
            step = -(-total // single_cap)
            pts = set(range(rng.randrange(step), total, step)) | set(range(min(6, total)))
        for k in sorted(pts):
            b = rng.choice([x for x in range(n) if x != a])
            do([(a, k, b)], a)
        for b in range(n):
            if b == a:
                continue
            for k1 in range(min(5, counts[a] + 1)):
                for k2 in sorted({rng.randrange(counts[b] + 1) for _ in range(per // 2)} | set(range(min(3, counts[b] + 1)))):
                    do([(a, k1, b), (b, k2, a)], a)
            for _ in range(per):
                do([(a, rng.randrange(counts[a] + 1), b), (b, rng.randrange(counts[b] + 1), a)], a)
    window_doubles(sc, n, do, ctx)


def gen_shard(ctx, payload):
    """GENERATED scenarios.  (1) the pair matrix: every pair of catalogue calls working on the same shared object (each
    grader, the scoring tables, the caches ...), cold.  (2) random scenarios: any two (sometimes three) calls of the
    catalogue - also from different modules - after a generated single-threaded prefix of 0-3 other calls (a partially warm
    process: some lazy tables built, some not, caches holding some entries), caches optionally filled to / just below their
    limit."""
    idx, pairs, count, thorough = payload
    rng = random.Random(derive_seed(ctx.seed, 'C16-gen', idx))
    names_all = sorted(thunks_table())
    light = [x for x in names_all if not x.endswith('-all')]
    per = 40 if thorough else 10
    try:
        for a, b in pairs:
            if HUNG:
                break
            fill = rng.choice([0, 0, 19, 20, 'oldest', -19]) if a.startswith(('sv', 'va')) else 0
            explore(ctx, rng, [a, b], [], fill, per, 400 if thorough else 40)
            ctx.label('pair-matrix-scenarios')
        for j in range(count):
            if HUNG:
                break
            n = 3 if rng.random() < 0.15 else 2
            names = [rng.choice(names_all if rng.random() < 0.1 else light) for _ in range(n)]
            prefix = [rng.choice(light) for _ in range(rng.choice([0, 0, 1, 1, 2, 3]))]
            fill = rng.choice([0, 19, 20]) if any(x.startswith(('sv', 'va')) for x in names) else 0
            ctx.label('generated-scenarios')
            ctx.label('generated-prefix-%d' % len(prefix))
            if len({x.split('-')[0] for x in names}) > 1:
                ctx.label('generated-cross-function')
            explore(ctx, rng, names, prefix, fill, per, 100 if thorough else 16)
    except Poisoned:
        pass
    if HUNG:
        ctx.label('shard-abandoned-after-a-thread-never-returned')


def run(ctx):
    thorough = ctx.tier == 'thorough'
    pm = pair_matrix()
    ctx.extra['pair_matrix'] = len(pm)
    nsh = 32
    run_shards(ctx, 'checks.c16', 'gen_shard', [(i, pm[i::nsh], 30 if thorough else 6, thorough) for i in range(nsh)],
               disjoint=True)
    payloads = []
    for name, names, fill in SCENARIOS:
        for warm in (False, True):
            payloads.append((name, names, fill, warm, thorough))
    # heaviest first (cold, three threads, Sportshall's 5000-line load, validations): better balance over the pool
    def weight(p):
        return (0 if not p[3] else 1, -len(p[1]), 0 if p[0].startswith(('sportshall', 'va', 'sv', 'factor', 'grade')) else 1)
    payloads.sort(key=weight)
    run_shards(ctx, 'checks.c16', 'shard', payloads, disjoint=True)

    # Hypothesis-drawn schedules (shrinkable): scenario x first runner x up to 3 pre-emptions
    solo_cache = {}

    @hypothesis.seed(derive_seed(ctx.seed, 'C16-hyp'))
    @settings(max_examples=1500 if thorough else 150, database=None, deadline=None,
              suppress_health_check=list(HealthCheck), phases=[Phase.generate])
    @given(st.data())
    def t(data):
        i = data.draw(st.integers(0, len(SCENARIOS) - 1))
        warm = data.draw(st.booleans())
        name, names, fill = SCENARIOS[i]
        sc = Scenario(name, names, fill, warm)
        key = (name, warm)
        if key not in solo_cache:
            with _stdout_guard():
                solo_cache[key] = sc.solo()
        counts = [n for r, n in solo_cache[key]]
        n = len(names)
        first = data.draw(st.integers(0, n - 1))
        sched = []
        cur = first
        for _ in range(data.draw(st.integers(1, 3))):
            k = data.draw(st.integers(0, counts[cur]))
            tgt = data.draw(st.sampled_from([x for x in range(n) if x != cur]))
            sched.append((cur, k, tgt))
            cur = tgt
        case = {'scenario': name, 'thunks': names, 'fill': fill, 'warm': warm, 'schedule': [list(s) for s in sched], 'first': first}
        if HUNG:
            return           # a thread of an earlier example never returned (already reported): nothing more to learn here
        ctx.count()
        ctx.label('hypothesis-schedule')
        vs = examine(case)
        if vs:
            ctx.violations(vs)
        if any(0 < s[1] < counts[s[0]] for s in sched):
            ctx.nontrivial((name, warm, first, tuple(sched)))
    t()
