"""Harness package.  In the ambient pass (VERIF_AMBIENT=1, see vlib.run) the date classes are switched before anything else
is imported."""
import os

if os.environ.get('VERIF_AMBIENT') == '1':
    # the ambient pass: "today" lies five years ahead (installed before the library is imported, so `from datetime import
    # date` inside it binds these classes); everything else about dates is unchanged
    import datetime as _dt
    _real_date, _real_datetime = _dt.date, _dt.datetime

    class _DateMeta(type):
        def __instancecheck__(cls, obj):          # dates made before the switch (or by C code) are dates all the same
            return isinstance(obj, _real_date)

    class _DatetimeMeta(type):
        def __instancecheck__(cls, obj):
            return isinstance(obj, _real_datetime)

    class _FutureDate(_dt.date, metaclass=_DateMeta):
        @classmethod
        def today(cls):
            t = _real_date.today()
            return cls(t.year + 5, t.month, min(t.day, 28))

    class _FutureDatetime(_dt.datetime, metaclass=_DatetimeMeta):
        _real = _dt.datetime

        @classmethod
        def now(cls, tz=None):
            t = cls._real.now(tz)
            return cls(t.year + 5, t.month, min(t.day, 28), t.hour, t.minute, t.second, t.microsecond, t.tzinfo)

        @classmethod
        def utcnow(cls):
            t = cls._real.utcnow()
            return cls(t.year + 5, t.month, min(t.day, 28), t.hour, t.minute, t.second, t.microsecond)

        @classmethod
        def today(cls):
            return cls.now()
    _dt.date = _FutureDate
    _dt.datetime = _FutureDatetime

