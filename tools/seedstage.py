#!/venv/bin/python
"""Stage a round of independent seeded-change sub-agents under /tmp/wt (outside /repo and /verif).

  tools/seedstage.py [C01 C02 ...]     (default: all 19)

Writes /tmp/wt/AGENT_BRIEF.txt, PROMPT.txt, Cnn.prop.txt (property text only), Cnn.explored.txt (one-line mechanisms of
earlier rounds, tools/seedbrief/explored.json) and adds a detached git worktree of /repo HEAD at /tmp/wt/Cnn.
Nothing from /verif's checks is copied.  Evaluate with tools/seedbatch.sh <suffix> Cnn...; remove worktrees afterwards
(tools/seedstage.py --clean).
"""
import json, os, shutil, subprocess, sys
V = os.path.dirname(os.path.dirname(os.path.abspath(__file__)))
W = '/tmp/wt'
ids = [a for a in sys.argv[1:] if not a.startswith('-')] or ['C%02d' % i for i in range(1, 20)]
if '--clean' in sys.argv:
    for i in ids:
        subprocess.run(['git', '-C', '/repo', 'worktree', 'remove', '--force', '%s/%s' % (W, i)], stderr=subprocess.DEVNULL)
    subprocess.run(['git', '-C', '/repo', 'worktree', 'prune'])
    sys.exit(0)
os.makedirs(W, exist_ok=True)
shutil.copy(os.path.join(V, 'tools/seedbrief/AGENT_BRIEF.txt'), W + '/AGENT_BRIEF.txt')
exp = json.load(open(os.path.join(V, 'tools/seedbrief/explored.json')))
for l in open(os.path.join(V, 'properties.jsonl')):
    p = json.loads(l)
    if p['id'] not in ids:
        continue
    open('%s/%s.prop.txt' % (W, p['id']), 'w').write("%s - %s\n\nStatement: %s\n\nQuantified over: %s\n\nAnchors (files / symbols): %s\n" % (
        p['id'], p['title'], p['statement'], p['quantifier']['text'], json.dumps(p.get('anchors', {}))))
    open('%s/%s.explored.txt' % (W, p['id']), 'w').write(exp[p['id']] + '\n')
open(W + '/PROMPT.txt', 'w').write(
    "Read /tmp/wt/AGENT_BRIEF.txt completely (including the ADDITIONAL GUIDANCE and every ROUND NOTE at its end) and follow it "
    "exactly. Your worktree is /tmp/wt/CXX, your property text is in /tmp/wt/CXX.prop.txt, and /tmp/wt/CXX.explored.txt lists the "
    "mechanisms already explored for this property: do NOT repeat them - pick a genuinely different mechanism AND a different part "
    "of the property / trigger. Do not read any other files under /tmp/wt except those three and your own worktree. Think for a "
    "while about which clause of the property is least likely to be exercised by a generic randomized test of this function "
    "family, and target that.\n")
for i in ids:
    d = '%s/%s' % (W, i)
    if not os.path.exists(d):
        subprocess.run(['git', '-C', '/repo', 'worktree', 'add', '-q', '--detach', d, 'HEAD'], check=True)
print(subprocess.run(['git', '-C', '/repo', 'worktree', 'list'], capture_output=True, text=True).stdout.count('\n'), 'worktrees')
