"""Exact / high-precision arithmetic helpers shared by the numeric oracles."""
import math
from decimal import Decimal, getcontext, localcontext
from fractions import Fraction

PREC = 60


def frac(x):
    """The decimal literal a maintainer wrote, as an exact Fraction."""
    if isinstance(x, Fraction):
        return x
    if isinstance(x, bool):
        raise TypeError(x)
    if isinstance(x, int):
        return Fraction(x)
    if isinstance(x, Decimal):
        return Fraction(x)
    if isinstance(x, float):
        return Fraction(Decimal(repr(x)))
    if isinstance(x, str):
        return Fraction(Decimal(x))
    raise TypeError(type(x))


def dec(fr):
    with localcontext() as c:
        c.prec = PREC
        return Decimal(fr.numerator) / Decimal(fr.denominator)


def ceil_div(fr):
    return -((-fr.numerator) // fr.denominator)


def floor_div(fr):
    return fr.numerator // fr.denominator


def centi_float(c):
    """Nearest double of the decimal c/100."""
    return float(Fraction(c, 100))


def centi_str(c, places=2):
    sign = '-' if c < 0 else ''
    c = abs(c)
    if places == 2:
        return '%s%d.%02d' % (sign, c // 100, c % 100)
    raise ValueError(places)


class Undecidable(Exception):
    pass


def pow_trunc(A, base, X):
    """trunc(A * base**X) for Fractions A, X and a positive Fraction base.

    Fast path: double arithmetic when the result is farther than 1e-6 from an integer (libm pow
    is accurate to ~1e-15 relative, results here are < 1e7).  Slow path: 60-digit Decimal; raises
    Undecidable when even that is within 1e-40 of an integer.
    """
    if base <= 0:
        return 0
    f = float(A) * (float(base) ** float(X))
    if f < 1e9:
        r = f - math.floor(f)
        if 1e-6 < r < 1 - 1e-6:
            return int(math.floor(f))
    with localcontext() as c:
        c.prec = PREC
        d = dec(A) * (dec(base) ** dec(X))
        n = int(d.to_integral_value(rounding='ROUND_FLOOR'))
        near = min(abs(d - n), abs(d - (n + 1)))
        if near < Decimal('1e-40'):
            # exact integer only possible when the power is rational-exact; check cheaply
            if X.denominator == 1:
                v = A * base ** X.numerator
                return v.numerator // v.denominator
            raise Undecidable((A, base, X))
        return n


def inv_pow(target, A, X):
    """(target/A)**(1/X) as a 60-digit Decimal."""
    with localcontext() as c:
        c.prec = PREC
        return (dec(Fraction(target)) / dec(A)) ** (Decimal(1) / dec(X))
