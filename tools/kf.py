#!/venv/bin/python
"""Maintain known_findings.json and replays/regress by hand (never called by a check).

  kf.py fixed  Cnn <commit> <slug> "<what failed>" '<case json>' ['<case json>' ...]
  kf.py open   Cnn <slug> "<what fails>" '<signature json list>' '<example case json>'
"""
import json, os, sys
V = os.path.dirname(os.path.dirname(os.path.abspath(__file__)))
KF = os.path.join(V, 'known_findings.json')
data = json.load(open(KF)) if os.path.exists(KF) else {'findings': []}
mode, prop = sys.argv[1], sys.argv[2]
if mode == 'fixed':
    commit, slug, what = sys.argv[3:6]
    cases = [json.loads(c) for c in sys.argv[6:]]
    data['findings'] = [e for e in data['findings'] if not (e['property'] == prop and e.get('slug') == slug)]
    data['findings'].append({'property': prop, 'status': 'fixed', 'commit': commit, 'slug': slug, 'what': what,
                             'record': 'fixed: property=%s %s %s' % (prop, commit, what),
                             'example': cases[0], 'regress': 'replays/regress/%s-%s.json' % (prop, slug)})
    with open(os.path.join(V, 'replays', 'regress', '%s-%s.json' % (prop, slug)), 'w') as f:
        json.dump({'property': prop, 'what': what, 'fixed_in': commit, 'cases': cases}, f, indent=1, sort_keys=True)
        f.write('\n')
elif mode == 'open':
    slug, what, sig, ex = sys.argv[3:7]
    data['findings'] = [e for e in data['findings'] if not (e['property'] == prop and e.get('slug') == slug)]
    data['findings'].append({'property': prop, 'status': 'open', 'slug': slug, 'what': what,
                             'signature': json.loads(sig), 'example': json.loads(ex)})
else:
    sys.exit('bad mode')
data['findings'].sort(key=lambda e: (e['property'], e['status'], e.get('slug', '')))
with open(KF, 'w') as f:
    json.dump(data, f, indent=1, sort_keys=True); f.write('\n')
print('ok', len(data['findings']), 'entries')
