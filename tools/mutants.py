"""Hand-written mutants for the sensitivity protocol (DESIGN.md §2.6).  Each compiles and is meant to
pass the 92 baseline tests (checked with tools/mut.py --tests)."""
A = 'athlib/athlon_score.py'
MUTANTS = [
 # ---- C01 / C09 -----------------------------------------------------------------
 dict(id='c01-unfix-round', props=['C01', 'C09'], file=A, count=2,
      old='math.floor(round(100* value * age_factor, 6))', new='math.floor(100* value * age_factor)'),
 dict(id='c01-floor-ceil-throws', props=['C01'], file=A,
      old="""    elif PAT_THROWS.match(event_code):
        value = 0.01 * (math.floor(""", new="""    elif PAT_THROWS.match(event_code):
        value = 0.01 * (math.ceil("""),
 dict(id='c01-band-round', props=['C01'], file='athlib/wma/agegrader.py',
      old='self.find_age(int(age // 5) * 5, ages, interpolate=False)',
      new='self.find_age(int(round(age / 5.0)) * 5, ages, interpolate=False)'),
 dict(id='c01-X-4th-decimal', props=['C01'], file=A,
      old='"event_code": "400H", "A": 0.99674, "Z": 103.0, "X": 1.81}', new='"event_code": "400H", "A": 0.99674, "Z": 103.0, "X": 1.8101}'),
 dict(id='c01-no-vet-remap', props=['C01'], file=A,
      old='elif gender == "M" and event_code in ["80H", "100H"]:', new='elif gender == "M" and event_code in ["80H"]:'),
 dict(id='c01-young-unfix', props=['C01'], file=A,
      old='if not age or age < ag.min_age:', new='if not age:'),
 dict(id='c01-int-trunc-to-round', props=['C01'], file=A,
      old="""        if coeffs["Z"] > value:
            points = max(0, int(coeffs["A"]""", new="""        if coeffs["Z"] > value:
            points = max(0, round(coeffs["A"]"""),
 dict(id='c09-floor-round-track', props=['C09'], file=A,
      old='perf = (math.floor(100.0 * (coeffs["Z"]', new='perf = (round(100.0 * (coeffs["Z"]'),
 dict(id='c09-ceil-floor-throws', props=['C09'], file=A,
      old='perf = (math.ceil(100.0 * (((score', new='perf = (math.floor(100.0 * (((score'),
 dict(id='c09-no-clamp', props=['C09'], file=A,
      old="""    if score < 0:
        score = 0

    key""", new="""    key"""),
 dict(id='c09-exponent', props=['C09'], file=A, count=3,
      old='(1.0 / coeffs["X"])', new='(1.0 / (coeffs["X"] + 1e-3))'),
]
