#!/venv/bin/python
"""Run tools/seedtest.py for seeded/<id>/ and write seeded/<id>/meta.json (keeps hand-written fields)."""
import json, os, subprocess, sys
V = os.path.dirname(os.path.dirname(os.path.abspath(__file__)))
for d in sys.argv[1:]:
    d = os.path.join(V, 'seeded', os.path.basename(d.rstrip('/')))
    mp = os.path.join(d, 'meta.json')
    meta = json.load(open(mp)) if os.path.exists(mp) else {}
    prop = meta.get('property') or os.path.basename(d)[:3]
    props = meta.get('checks_run') or [prop]
    r = json.loads(subprocess.run([os.path.join(V, 'tools', 'seedtest.py'), d, '--props', ','.join(props)], stdout=subprocess.PIPE, text=True).stdout)
    notes = open(os.path.join(d, 'notes.md')).read() if os.path.exists(os.path.join(d, 'notes.md')) else ''
    meta.update({
        'property': prop,
        'source': meta.get('source', 'independent sub-agent given only the property text and a scratch worktree'),
        'needs_to_manifest': meta.get('needs_to_manifest') or notes.strip().split('\n\n')[-1][:600],
        'what_was_run': 'tools/seedtest.py: patch applied to a scratch copy of /repo under /dev/shm; baseline suite; demo.py on patched and unpatched tree; ./check <prop> --tier quick with VERIF_REPO=<copy>',
        'patch_applies': r.get('patch_applies'), 'baseline_suite_passes_with_patch': r.get('baseline_passes'),
        'demo_exit_patched': r.get('demo_patched_rc'), 'demo_exit_unpatched': r.get('demo_unpatched_rc'),
        'checks': r.get('props'),
    })
    json.dump(meta, open(mp, 'w'), indent=1, sort_keys=True)
    print(os.path.basename(d), {k: v['verdict'] for k, v in (r.get('props') or {}).items()}, 'baseline', r.get('baseline_passes'), 'demo', r.get('demo_patched_rc'), r.get('demo_unpatched_rc'))
