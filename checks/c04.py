"""C04 — event-code families: unions are exact, measurement kinds never overlap."""
import itertools
import random

import hypothesis
from hypothesis import given, settings, strategies as st, HealthCheck, Phase

import athlib
from athlib import codes
from vlib import codegen
from vlib.harness import V, derive_seed, run_shards
from vlib.lib import call

PROPERTY = 'C04'
RULE = ('(i) ALL strings up to length L over the class-representative alphabet (one code point per cell of the partition '
        'of Unicode induced by every character class / literal of the 24 exported patterns; L=4 quick, L=5 thorough); '
        '(ii) strings generated from the syntax tree of every family and composite pattern (own generator + Hypothesis '
        'from_regex), (iii) single-edit near misses and (iv) trailing-newline variants of those; oracle = plain membership: '
        'composite accepts <=> some part accepts, at most one measurement kind, first-match classification independent of '
        'order; non-trivial = a string accepted by at least one pattern; distinct strings')
ASSUMPTIONS = ['language equality is explored to a length bound and by grammar-directed sampling, not proved for unbounded length',
               'first-match classifiers are compared by unit (length vs. time): track and road are both timed']

FAMILIES = ['PAT_TRACK', 'PAT_HURDLES', 'PAT_ROAD', 'PAT_RELAYS', 'PAT_JUMPS', 'PAT_THROWS', 'PAT_MULTI',
            'PAT_RACES_FOR_DISTANCE', 'PAT_HIGHSCORING_EVENT', 'PAT_LOWSCORING_EVENT']
COMPOSITES = {
    'PAT_EVENT_CODE': FAMILIES,
    'PAT_JUMPS': ['PAT_VERTICAL_JUMPS', 'PAT_HORIZONTAL_JUMPS'],
    'PAT_RUN': ['PAT_TRACK', 'PAT_ROAD', 'PAT_RELAYS'],
    'PAT_FIELD': ['PAT_THROWS', 'PAT_JUMPS'],
    'PAT_LENGTH_EVENT': ['PAT_HORIZONTAL_JUMPS', 'PAT_THROWS'],
    'PAT_TIMED_EVENT': ['PAT_TRACK', 'PAT_HURDLES', 'PAT_ROAD', 'PAT_RELAYS'],
    'PAT_FINISH_RECORD': ['PAT_PERF', 'PAT_FINISHED', 'PAT_NOT_FINISHED'],
}
KINDS = {'timed': 'PAT_TIMED_EVENT', 'field': 'PAT_FIELD', 'multi': 'PAT_MULTI', 'fixed-duration': 'PAT_RACES_FOR_DISTANCE'}
ALL_NAMES = sorted(set(FAMILIES) | set(COMPOSITES) | set(x for v in COMPOSITES.values() for x in v))


def pats():
    return {n: getattr(codes, n) for n in ALL_NAMES}


_P = None
_KIND_ORDERS = list(itertools.permutations(['throw', 'jump', 'track', 'road']))
_UNIT = {'throw': 'length', 'jump': 'length', 'track': 'time', 'road': 'time'}


def examine_string(s, P=None):
    global _P
    if P is None:
        if _P is None:
            _P = pats()
        P = _P
    acc = {n: bool(p.match(s)) for n, p in P.items()}
    out = []
    case = {'kind': 'string', 's': s}
    for comp, parts in COMPOSITES.items():
        u = any(acc[p] for p in parts)
        if acc[comp] != u:
            which = [p for p in parts if acc[p]]
            out.append(V('union-exact', ['union', comp, 'composite-only' if acc[comp] else 'part-only'] + which[:1],
                         case, {'composite': acc[comp], 'parts': which}))
    # the public checker IS the general pattern (a string it lets through that the pattern - hence every family - refuses is a
    # "valid code" without a family, a unit or a kind)
    ck = call(athlib.check_event_code, s)
    if ck[0] == 'exc' or bool(ck[1]) != acc['PAT_EVENT_CODE']:
        out.append(V('union-exact', ['union', 'check_event_code', 'checker-only' if ck[0] == 'ret' and ck[1] else 'pattern-only'],
                     case, ck[:2], acc['PAT_EVENT_CODE']))
    kinds = [k for k, n in KINDS.items() if acc[n]]
    if len(kinds) > 1:
        out.append(V('kinds-disjoint', ['kinds-overlap'] + sorted(kinds), case, kinds))
    if acc['PAT_EVENT_CODE']:
        # first-match classification: unit independent of the order of the pattern list
        m = {'throw': acc['PAT_THROWS'], 'jump': acc['PAT_JUMPS'], 'track': acc['PAT_TRACK'], 'road': acc['PAT_ROAD']}
        units = set()
        for order in _KIND_ORDERS:
            for k in order:
                if m[k]:
                    units.add(_UNIT[k])
                    break
        if len(units) > 1:
            out.append(V('first-match-order-independent', ['classifier-order', 'event_code_to_kind'], case, sorted(units)))
        # the library's own classifiers agree with the (unique) unit
        un = call(athlib.athlon_score.__globals__['unit_name'], s)
        want = 'metres' if (acc['PAT_JUMPS'] or acc['PAT_THROWS']) else 'seconds'
        if un != ('ret', want):
            out.append(V('first-match-order-independent', ['classifier', 'unit_name'], case, un, want))
        if len(units) == 1:
            k = call(athlib.AgeGrader.event_code_to_kind, s)
            if k[0] != 'ret' or _UNIT.get(k[1]) != list(units)[0]:
                out.append(V('first-match-order-independent', ['classifier', 'event_code_to_kind'], case, k, list(units)[0]))
    return out, any(acc.values())


def examine(case):
    return examine_string(case['s'])[0]


def shrink(bucket):
    s = bucket['case']['s']
    sig = bucket['sig']

    def fails(t):
        return any(v['sig'] == sig for v in examine_string(t)[0])
    t = codegen.ddmin_string(s, fails)
    if t != s:
        vs = [v for v in examine_string(t)[0] if v['sig'] == sig]
        return {'case': vs[0]['case'], 'observed': vs[0]['observed']}
    return None


# ---------------------------------------------------------------------------------------------

def shard_exhaustive(ctx, payload):
    alphabet, L, prefix = payload
    P = pats()
    n = 0
    for k in range(0, L - len(prefix) + 1):
        for tail in itertools.product(alphabet, repeat=k):
            s = prefix + ''.join(tail)
            n += 1
            vs, nt = examine_string(s, P)
            if vs:
                ctx.violations(vs)
            if nt:
                ctx.nontrivial(s, {'s': s, 'source': 'exhaustive'} if len(ctx.nt_keys) % 300 == 5 else None)
    ctx.count(n)
    ctx.label('exhaustive-short-strings', n)


def shard_generated(ctx, payload):
    name, n = payload
    P = pats()
    rng = random.Random(derive_seed(ctx.seed, 'C04', name))
    g = codegen.Gen(getattr(codes, name), name)
    for i in range(n):
        s = g.generate(rng.randrange, long_digits=(i % 7 == 0))
        variants = [s, s + '\n', codegen.near_misses(s, rng.randrange), codegen.near_misses(s, rng.randrange),
                    codegen.lookalikes(s, rng.randrange)]          # Unicode look-alikes of its letters / digits / blanks
        if i % 5 == 0:
            variants.append(codegen.near_misses(variants[2], rng.randrange))
        for j, t in enumerate(variants):
            ctx.count()
            vs, nt = examine_string(t, P)
            if vs:
                ctx.violations(vs)
            if nt:
                ctx.nontrivial(t, {'s': t, 'source': name + ('' if j == 0 else '+newline' if j == 1 else '+edit')}
                               if len(ctx.nt_keys) % 4000 == 9 else None)
            ctx.label('generated-' + ('member' if j == 0 else 'newline' if j == 1 else 'near-miss'))
    c, t = g.coverage()
    ctx.extra.setdefault('alternative_coverage', {})[name] = '%d/%d' % (c, t)
    if c < t:
        ctx.extra.setdefault('alternatives_not_covered', []).append(name)


def run_from_regex(ctx, n_each):
    """Independent second generator: Hypothesis from_regex on every family/composite."""
    P = pats()
    for name in ALL_NAMES:
        pat = getattr(codes, name)

        @hypothesis.seed(derive_seed(ctx.seed, 'C04-from_regex', name))
        @settings(max_examples=n_each, database=None, deadline=None, derandomize=False,
                  suppress_health_check=list(HealthCheck), phases=[Phase.generate])
        @given(st.from_regex(pat, fullmatch=True))
        def t(s):
            ctx.count()
            ctx.label('from_regex')
            vs, nt = examine_string(s, P)
            if vs:
                ctx.violations(vs)
            if nt:
                ctx.nontrivial(s)
        t()


def run(ctx):
    exported = [getattr(codes, n) for n in codes.__all__ if n.startswith('PAT_')]
    alphabet, nclasses = codegen.representative_alphabet(exported)
    thorough = ctx.tier == 'thorough'
    L = 5 if thorough else 4
    ctx.extra['alphabet_cells'] = len(alphabet)
    ctx.extra['alphabet'] = ''.join(alphabet)
    ctx.extra['exhaustive_length'] = L
    ctx.extra['classes_and_literals'] = nclasses
    payloads = [(alphabet, L, a) for a in alphabet] + [(alphabet, 0, '')]
    run_shards(ctx, 'checks.c04', 'shard_exhaustive', payloads, disjoint=True)
    n = 100000 if thorough else 4000
    run_shards(ctx, 'checks.c04', 'shard_generated', [(name, n) for name in ALL_NAMES], disjoint=False)
    run_from_regex(ctx, 2500 if thorough else 150)
    ctx.exhaustive = False
    ctx.note('all %d^k strings for k <= %d over the representative alphabet were enumerated' % (len(alphabet), L))
