#!/venv/bin/python
"""tools/seednote.py <seed id> "<strengthening text>" - mark seeded/<id>/meta.json as initially missed and say what was strengthened."""
import json, os, sys
V = os.path.dirname(os.path.dirname(os.path.abspath(__file__)))
p = os.path.join(V, 'seeded', sys.argv[1], 'meta.json')
m = json.load(open(p))
m['initially_missed'] = True
m['strengthening'] = sys.argv[2]
json.dump(m, open(p, 'w'), indent=1, sort_keys=True)
print(sys.argv[1], m['checks'])
