"""C19 — schema validation answers do not depend on what was validated before."""
import contextlib
import io
import json
import os
import random
import subprocess
import sys

import hypothesis
from hypothesis import settings, strategies as st, HealthCheck, Phase
from hypothesis.stateful import RuleBasedStateMachine, rule, initialize, run_state_machine_as_test

import jsonschema

from vlib.harness import V, derive_seed, run_shards, REPO, HarnessError, VERIF
from vlib.lib import mod

PROPERTY = 'C19'
RULE = ('calls = schema_valid(schema, validator in {Draft3, Draft4, Draft7}, expect_failure) over all bundled schema files and '
        'valid_against_schema(doc, schema, expect_failure) over all sample documents x all top-level schemas (valid or not) and two documents x every definition file and the metaschema; '
        'histories: ALL sequences of length <= 2 over a reduced call set, ALL triples (x, y, x\') where x\' differs from x only in '
        'expect_failure, ALL cross-function pairs (schema check of s, validation against s) in both orders, and a Hypothesis RuleBasedStateMachine drawing up to 60 calls that overflow the 20-entry caches; the '
        'caches are cleared at the start of every history; oracle: every call in every history must equal the outcome (True / '
        'False / exception type) of the same single call made first in a NEW interpreter process with the network blocked '
        '(reference table computed in real subprocesses, once per run); fixed facts: bundled valid samples validate, *_invalid* '
        'samples do not; non-trivial = a history in which a key is queried twice with different expect_failure, or in which an '
        'eviction happened between two queries of the same key; distinct histories')
ASSUMPTIONS = ['"cleared caches" stands for "fresh process" inside a history; the thorough tier replays generated histories in real fresh '
               'processes to validate that assumption',
               'the reference subprocesses run with socket.socket / create_connection / getaddrinfo patched to raise, so any network use would '
               'show as a different outcome']
RULE = RULE + '; one call per bundled file also in a fresh process of another kind (C locale without UTF-8 mode, UTC+14, python -O) and every sample / schema also in a fresh process of the INSTALLED package layout (schemas inside the package, as setup.py ships it); the schema check also over the sample documents and over harness-made schemas on which Draft 3 / 4 / 6 / 7 disagree; ALL ordered pairs of calls whose keys differ only in the directory of a like-named file or only in the validator class; every call of the universe must end in a documented outcome (True, False, ValidationError, SchemaError) in the fresh process'

VALIDATORS = ['Draft3Validator', 'Draft4Validator', 'Draft6Validator', 'Draft7Validator']
SYNTH = os.path.join(VERIF, 'checks', 'c19_synth')      # harness-made schemas on which the validator classes disagree


def universe():
    jd = os.path.join(REPO, 'json')
    schemas = sorted('json/' + f for f in os.listdir(jd) if f.endswith('.json'))
    defs = sorted('json/definitions/' + f for f in os.listdir(os.path.join(jd, 'definitions')) if f.endswith('.json'))
    docs = sorted('sample-jsons/' + f for f in os.listdir(os.path.join(REPO, 'sample-jsons')) if f.endswith('.json'))
    top = [s for s in schemas if not s.endswith('metaschema.json')]
    sv = [('sv', s, v, ef) for s in schemas + defs for v in VALIDATORS for ef in (False, True)]
    # any JSON file can be handed to the schema check: the sample documents (several share their file name with a schema
    # in another directory) and harness-made schemas on which the validator classes disagree (the bundled ones are judged
    # alike by most classes, so answers confused between classes would not show on them)
    sv += [('sv', d, v, ef) for d in docs for v in VALIDATORS for ef in (False, True)]
    synth = sorted(os.path.join(SYNTH, f) for f in os.listdir(SYNTH) if f.endswith('.json'))
    sv += [('sv', f, v, ef) for f in synth for v in VALIDATORS for ef in (False, True)]
    # validator classes built on the fly (jsonschema.validators.extend) and dropped after the call, as a caller with its own
    # keyword set does: 'ext:<base>' - judged like any other call against its own first call in a fresh process
    sv += [('sv', f, 'ext:' + v, ef) for f in synth + top[:2] for v in ('Draft3Validator', 'Draft4Validator', 'Draft7Validator') for ef in (False, True)]
    va = [('va', d, s, ef) for d in docs for s in top for ef in (False, True)]
    sdocs = [f for f in synth if os.path.basename(f).startswith('doc_')]
    va += [('va', d_, f, ef) for d_ in sdocs for f in synth if f not in sdocs for ef in (False, True)]
    va += [('va', s_, d_, ef) for s_, d_ in ((schemas[0], docs[0]), (docs[0], docs[0]), (top[0], top[0])) for ef in (False, True)]
    # the definition files are schemas too ("every bundled schema"): two documents each keep the table small
    for s in defs + [x for x in schemas if x.endswith('metaschema.json')]:
        for d in (docs[0], docs[len(docs) // 2]):
            for ef in (False, True):
                va.append(('va', d, s, ef))
    # other spellings of the same files (absolute path, bare file name resolved by localpath, backslashes): each is its
    # own cache key and must behave like the plain spelling does in a fresh process
    def spell(p, k):
        if k == 'abs':
            return os.path.join(REPO, p)
        if k == 'bare':
            return p.split('/', 1)[1] if p.startswith('json/') else p
        return p.replace('/', '\\')
    for s_ in (schemas[0], schemas[len(schemas) // 2], defs[0]):
        for k in ('abs', 'bare', 'backslash'):
            for ef in (False, True):
                sv.append(('sv', spell(s_, k), 'Draft4Validator', ef))
    for d, s_ in ((docs[0], top[0]), (docs[1], top[0]), (docs[len(docs) // 2], top[len(top) // 2])):
        for k in ('abs', 'bare', 'backslash'):
            for ef in (False, True):
                va.append(('va', spell(d, 'abs' if k != 'backslash' else k), spell(s_, k), ef))
    # paths relative to the caller's directory (calls made from <repo>/tests): every top-level schema with its own samples
    for s_ in top:
        stem = os.path.basename(s_)[:-5]
        mine = [d for d in docs if os.path.basename(d).startswith(stem)][:2]
        for d in mine:
            for ef in (False, True):
                va.append(('va', '../' + d, '../' + s_, ef))
        sv.append(('sv', '../' + s_, 'Draft4Validator', False))
        sv.append(('sv', '../' + s_, 'Draft4Validator', True))
    return sv, va, docs, top


def do_call(c):
    """Execute one call in this process; returns 'True' / 'False' / 'raises:<Type>'."""
    u = mod('utils')
    buf = io.StringIO()
    # a path spelled '../...' is relative to the caller's directory: such calls are made from <repo>/tests, like the
    # project's own test-suite does
    here = os.getcwd()
    updir = any(isinstance(x, str) and x.startswith('../') for x in c[1:3])
    try:
        if updir:
            os.chdir(os.path.join(REPO, 'tests'))
        with contextlib.redirect_stdout(buf):
            if c[0] == 'sv':
                if c[2].startswith('ext:'):
                    import gc
                    cls = jsonschema.validators.extend(getattr(jsonschema, c[2][4:]), {})
                    try:
                        r = u.schema_valid(c[1], validator=cls, expect_failure=c[3])
                    finally:
                        del cls
                        gc.collect()
                else:
                    r = u.schema_valid(c[1], validator=getattr(jsonschema, c[2]), expect_failure=c[3])
            else:
                r = u.valid_against_schema(c[1], c[2], expect_failure=c[3])
        return repr(r)
    except Exception as e:
        # "the schema / validation error raised": which error it is belongs to the outcome - the keyword that failed, where
        # in the document, and the message (after a tab; klass() gives the bare class)
        detail = ''
        if isinstance(e, jsonschema.exceptions._Error):
            detail = '\t%s@%s: %s' % (e.validator, '/'.join(str(x) for x in e.absolute_path), str(e.message)[:160])
        return 'raises:' + type(e).__name__ + detail
    finally:
        if updir:
            os.chdir(here)


def klass(o):
    return o.split('\t')[0]


_UTILS_SNAP = None


def clear_caches():
    """Module-level containers of athlib.utils back to their import-time content (the two validation caches under their
    present names, and any cache a later change adds under another name)."""
    global _UTILS_SNAP
    u = mod('utils')
    if _UTILS_SNAP is None:
        from vlib.statesnap import Snap
        for nm in ('_schema_valid_cache', '_valid_against_schema_cache'):
            c = getattr(u, nm, None)
            if hasattr(c, 'clear'):
                c.clear()
        _UTILS_SNAP = Snap(u)
    _UTILS_SNAP.restore()


FRESH_SNIPPET = r'''
import sys, json, socket
def _blocked(*a, **k): raise OSError("network use is not allowed in this check")
class _NoSocket(socket.socket):
    def __init__(self, *a, **k): raise OSError("network use is not allowed in this check")
socket.socket = _NoSocket         # file:// references are read through urlopen without any socket
socket.create_connection = _blocked
socket.getaddrinfo = _blocked
sys.path.insert(0, %(verif)r)
from checks.c19 import do_call
calls = json.loads(sys.stdin.read())
print("RESULT" + json.dumps([do_call(tuple(c)) for c in calls]))
'''


RULE = RULE + '; schema checks also with validator classes built on the fly (jsonschema.validators.extend) and dropped after the call, several in a row on one file'
OTHER_ENV = {'LC_ALL': 'C', 'LANG': 'C', 'PYTHONUTF8': '0', 'PYTHONCOERCECLOCALE': '0', 'TZ': 'Pacific/Kiritimati',
             'PYTHONOPTIMIZE': '1'}


def run_fresh(calls, other_env=False, site=None):
    """Run one history (list of calls) in ONE new interpreter with the network blocked; returns the outcomes.  other_env:
    a fresh process of another kind - plain C locale without UTF-8 mode (files are then read as ASCII unless the library
    says otherwise), another time zone, asserts compiled away: "a fresh process" is any fresh process."""
    env = dict(os.environ)
    if other_env:
        env.update(OTHER_ENV)
    cwd = VERIF
    if site:
        # the INSTALLED layout (what setup.py ships: the schemas inside the package as athlib/json-schemas, no json/ beside it)
        env['PYTHONPATH'] = os.pathsep.join([site, VERIF, os.path.join(VERIF, '.deps')])
        cwd = os.path.dirname(site)
    p = subprocess.run([sys.executable, '-c', FRESH_SNIPPET % {'verif': VERIF}], input=json.dumps([list(c) for c in calls]),
                       env=env, stdout=subprocess.PIPE, stderr=subprocess.PIPE, text=True, cwd=cwd)
    for line in p.stdout.splitlines():
        if line.startswith('RESULT'):
            return json.loads(line[6:])
    raise HarnessError('fresh-process run failed: ' + p.stderr[-600:])


def fresh_worker(ctx, payload):
    """The reference table: every call alone, first, in its own new interpreter."""
    calls = payload
    ctx.extra['fresh'] = {json.dumps(list(c)): run_fresh([c])[0] for c in calls}
    ctx.count(len(calls))
    ctx.label('fresh-process-calls', len(calls))


def other_env_worker(ctx, payload):
    """One call per bundled file in a fresh process of another kind (OTHER_ENV): the same outcome as in the usual one."""
    calls, fresh = payload
    for c in calls:
        got = run_fresh([c], other_env=True)[0]
        want = fresh[json.dumps(list(c))]
        ctx.count()
        ctx.label('fresh-process-of-another-kind')
        if got != want:
            ctx.violation(V('same-as-fresh-process', ['environment-dependent', c[0], 'got-' + klass(got).split(':')[-1]],
                            {'calls': [list(c)], 'fresh': {json.dumps(list(c)): want}, 'other_env': True}, got, want))


def make_installed_site(root):
    """<root>/site/athlib = the package with the schemas inside it (json/ copied to athlib/json-schemas, as `setup.py sdist`
    does); nothing else of the repository is beside it."""
    import shutil
    site = os.path.join(root, 'my site \u00e9#1')          # a path that needs URL quoting (blank, accent, hash)
    shutil.copytree(os.path.join(REPO, 'athlib'), os.path.join(site, 'athlib'), ignore=shutil.ignore_patterns('__pycache__', 'json-schemas'))
    shutil.copytree(os.path.join(REPO, 'json'), os.path.join(site, 'athlib', 'json-schemas'))
    return site


def installed_worker(ctx, payload):
    """The same calls made first in a fresh process of the INSTALLED package (documents by absolute path, schemas by their
    customary names): the same outcomes as in the source checkout."""
    calls, fresh, site = payload
    for c in calls:
        d = c[1] if c[0] == 'sv' else os.path.join(REPO, c[1])
        c2 = (c[0], d, c[2], c[3])
        got = run_fresh([c2], site=site)[0]
        want = fresh[json.dumps(list(c))]
        ctx.count()
        ctx.label('fresh-process-of-the-installed-package')
        if got != want:
            ctx.violation(V('same-as-fresh-process', ['installed-layout-differs', c[0], 'got-' + klass(got).split(':')[-1]],
                            {'calls': [list(c)], 'fresh': {json.dumps(list(c)): want}, 'installed': True}, got, want))


def key_of(c):
    return (c[0], c[1], c[2])


def examine(case):
    """case: {'calls': [[...], ...], 'fresh': {call-json: outcome}} — replays one history in this process."""
    fresh = case.get('fresh') or {}
    clear_caches()
    out = []
    hist = []
    if case.get('installed'):
        import tempfile
        import shutil
        c = tuple(case['calls'][0])
        root = tempfile.mkdtemp(prefix='athlib-c19-installed-', dir='/dev/shm' if os.path.isdir('/dev/shm') else None)
        try:
            site = make_installed_site(root)
            d = c[1] if c[0] == 'sv' else os.path.join(REPO, c[1])
            got, want = run_fresh([(c[0], d, c[2], c[3])], site=site)[0], run_fresh([c])[0]
        finally:
            shutil.rmtree(root, ignore_errors=True)
        if got != want:
            out.append(V('same-as-fresh-process', ['installed-layout-differs', c[0], 'got-' + klass(got).split(':')[-1]], case, got, want))
        return out
    if case.get('other_env'):
        c = tuple(case['calls'][0])
        got, want = run_fresh([c], other_env=True)[0], run_fresh([c])[0]
        if got != want:
            out.append(V('same-as-fresh-process', ['environment-dependent', c[0], 'got-' + klass(got).split(':')[-1]], case, got, want))
        return out
    if case.get('fact') == 'outcome-class':
        c = tuple(case['calls'][0])
        o = run_fresh([c])[0]
        if klass(o) not in ('True', 'False', 'raises:ValidationError', 'raises:SchemaError'):
            out.append(V('references-resolve', ['outcome-class', c[0], klass(o).split(':')[-1]], case, o))
        return out
    for raw in case['calls']:
        c = tuple(raw)
        got = do_call(c)
        want = fresh.get(json.dumps(list(c)))
        if want is None:
            want = run_fresh([c])[0]
        hist.append(list(c))
        if got != want:
            earlier = [h for h in hist[:-1] if key_of(tuple(h)) == key_of(c)]
            cause = 'after-same-key-other-expect_failure' if any(h[3] != c[3] for h in earlier) else \
                'after-same-call' if earlier else 'after-other-keys'
            out.append(V('same-as-fresh-process', ['history-dependent', c[0], cause, 'got-' + got.split(':')[0],
                                                   'fresh-' + want.split(':')[0]] + (['another-error'] if klass(got) == klass(want) else []),
                         {'calls': list(hist), 'fresh': {json.dumps(list(c)): want}}, got, want))
            break
    return out


def nontrivial(calls):
    seen = {}
    for i, c in enumerate(calls):
        k = key_of(c)
        if k in seen:
            j, ef = seen[k]
            if ef != c[3]:
                return True
            distinct_between = len(set(key_of(x) for x in calls[j + 1:i] if x[0] == c[0]))
            if distinct_between >= 20:
                return True
        seen[k] = (i, c[3])
    return False


def shard_histories(ctx, payload):
    hists, fresh = payload
    for calls in hists:
        case = {'calls': [list(c) for c in calls], 'fresh': fresh}
        ctx.count(len(calls))
        vs = examine(case)
        if vs:
            for v in vs:       # keep replay files small: only the outcomes the history needs
                v['case']['fresh'] = {json.dumps(c): fresh[json.dumps(c)] for c in v['case']['calls']}
            ctx.violations(vs)
        ctx.label('history-len-%d' % len(calls))
        if nontrivial(calls):
            ctx.nontrivial(repr(calls), {'calls': [list(c) for c in calls]} if len(ctx.nt_keys) % 800 == 1 else None)


def shard_machine(ctx, payload):
    n_runs, fresh, sv, va = payload

    class CacheHistory(RuleBasedStateMachine):
        def __init__(self):
            super().__init__()
            clear_caches()
            self.calls = []
            self.failed = False

        def _do(self, c):
            if self.failed:
                return
            got = do_call(c)
            self.calls.append(c)
            ctx.count()
            want = fresh[json.dumps(list(c))]
            if got != want:
                self.failed = True
                vs = examine({'calls': [list(x) for x in self.calls], 'fresh': fresh})
                for v in vs:
                    v['case']['fresh'] = {json.dumps(x): fresh[json.dumps(x)] for x in v['case']['calls']}
                ctx.violations(vs)

        @rule(i=st.integers(0, len(sv) - 1))
        def schema_check(self, i):
            self._do(sv[i])

        @rule(i=st.integers(0, len(va) - 1))
        def validate_doc(self, i):
            self._do(va[i])

        @rule(data=st.data())
        def repeat_with_other_expectation(self, data):
            if not self.calls:
                return
            c = self.calls[data.draw(st.integers(0, len(self.calls) - 1))]
            self._do((c[0], c[1], c[2], not c[3]))

        @rule(data=st.data())
        def repeat_earlier(self, data):
            if not self.calls:
                return
            self._do(self.calls[data.draw(st.integers(0, len(self.calls) - 1))])

        @rule(data=st.data())
        def burst_of_distinct_keys(self, data):
            """Overflow a 20-entry cache: 21 distinct keys of one function in a row."""
            pool = va if data.draw(st.booleans()) else sv
            start = data.draw(st.integers(0, len(pool) - 1))
            for k in range(21):
                self._do(pool[(start + 2 * k) % len(pool)])

        def teardown(self):
            ctx.label('machine-history')
            if nontrivial(self.calls):
                ctx.nontrivial(repr(self.calls), {'calls': [list(c) for c in self.calls[:12]], 'length': len(self.calls)}
                               if len(ctx.nt_keys) % 100 == 1 else None)
            if len(set(key_of(c) for c in self.calls if c[0] == 'va')) > 20 or \
                    len(set(key_of(c) for c in self.calls if c[0] == 'sv')) > 20:
                ctx.label('machine-history-overflows-a-cache')

    seeded = hypothesis.seed(derive_seed(ctx.seed, 'C19-machine', ctx.shard))(CacheHistory)
    run_state_machine_as_test(seeded, settings=settings(
        max_examples=n_runs, stateful_step_count=20, deadline=None, database=None,
        suppress_health_check=list(HealthCheck), phases=[Phase.generate]))


def run(ctx):
    thorough = ctx.tier == 'thorough'
    sv, va, docs, top = universe()
    allcalls = sv + va
    # 1. reference table from real fresh processes
    chunks = [allcalls[i::16] for i in range(16)]
    run_shards(ctx, 'checks.c19', 'fresh_worker', chunks, disjoint=True)
    fresh = ctx.extra.pop('fresh')
    if len(fresh) != len(allcalls):
        raise HarnessError('reference table incomplete: %d of %d' % (len(fresh), len(allcalls)))
    ctx.extra['reference_outcomes'] = {k: sum(1 for v in fresh.values() if klass(v) == k) for k in sorted(set(klass(v) for v in fresh.values()))}
    # 2. fixed facts about the bundled samples
    for d in docs:
        name = os.path.basename(d)
        stem = name.split('_')[0] if not name.startswith('combined') else 'combined_performance'
        schema = 'json/%s.json' % stem
        if schema not in top:
            continue
        invalid = '_invalid' in name
        a = fresh[json.dumps(['va', d, schema, False])]
        b = fresh[json.dumps(['va', d, schema, True])]
        ok = (a == 'False' and klass(b) == 'raises:ValidationError') if invalid else (a == 'True' and b == 'True')
        ctx.count()
        ctx.label('bundled-sample-fact')
        if not ok:
            ctx.violation(V('bundled-samples', ['sample-fact', 'invalid' if invalid else 'valid'],
                            {'calls': [['va', d, schema, False]], 'fresh': {}}, [a, b]))
    # 2b. every call on bundled files ends in one of the documented outcomes - True, False, or the schema / validation error -
    # in a fresh process: anything else (a reference that does not resolve, a file of the bundle not found, a network
    # error) contradicts "relative file references between schemas resolve without network access"
    allowed = {'True', 'False', 'raises:ValidationError', 'raises:SchemaError'}
    for c in allcalls:
        o = fresh[json.dumps(list(c))]
        ctx.count()
        if klass(o) in allowed:
            continue
        if klass(o) == 'raises:FileNotFoundError' and c[0] == 'va' and '\\' in c[1]:
            continue            # a DOCUMENT path spelled with backslashes is not looked up in the bundle: no such file here
        ctx.violation(V('references-resolve', ['outcome-class', c[0], klass(o).split(':')[-1]],
                        {'calls': [list(c)], 'fresh': {}, 'fact': 'outcome-class'}, o, sorted(allowed)))
    ctx.label('outcome-class-facts', len(allcalls))
    # 2c. a fresh process of another kind (C locale without UTF-8 mode, another time zone, python -O): one call per file
    per_file = {}
    for c in allcalls:
        if not c[3] and '\\' not in c[1] and not c[1].startswith('../'):
            per_file.setdefault(c[1], c)
            if c[0] == 'va':
                per_file.setdefault(c[2], c)
    oc = sorted(per_file.values())
    run_shards(ctx, 'checks.c19', 'other_env_worker', [(oc[i::16], fresh) for i in range(16)], disjoint=True)
    # 2d. the installed layout: every sample against its own schema, every schema checked
    import tempfile
    import shutil
    ic = [c for c in allcalls if not c[3] and (
        (c[0] == 'va' and c[1].startswith('sample-jsons/') and c[2].startswith('json/') and
         os.path.basename(c[1]).split('_')[0].split('.')[0] in os.path.basename(c[2])) or
        (c[0] == 'sv' and c[1].startswith('json/') and c[2] == 'Draft4Validator'))]
    ic += [(c[0], c[1], c[2], True) for c in ic if c[0] == 'va']
    root = tempfile.mkdtemp(prefix='athlib-c19-installed-', dir='/dev/shm' if os.path.isdir('/dev/shm') else None)
    try:
        site = make_installed_site(root)
        run_shards(ctx, 'checks.c19', 'installed_worker', [(ic[i::16], fresh, site) for i in range(16)], disjoint=True)
    finally:
        shutil.rmtree(root, ignore_errors=True)
    ctx.extra['installed_layout_calls'] = len(ic)
    # 3. histories
    rng = random.Random(derive_seed(ctx.seed, 'C19'))
    false_keys = [c for c in allcalls if fresh[json.dumps(list(c))] != 'True' and not c[3]]
    true_keys = [c for c in allcalls if fresh[json.dumps(list(c))] == 'True' and not c[3]]
    reduced = rng.sample(false_keys, min(len(false_keys), 14 if not thorough else 30)) + \
        rng.sample(true_keys, 10 if not thorough else 20)
    reduced = reduced + [(c[0], c[1], c[2], True) for c in reduced]
    hists = [[c] for c in allcalls]
    hists += [[a, b] for a in reduced for b in reduced]
    ys = rng.sample(allcalls, 6 if not thorough else 24)
    keys = sorted(set(key_of(c) for c in allcalls))
    for k in keys:
        for ef in (False, True):
            x = k + (ef,)
            x2 = k + (not ef,)
            hists.append([x, x2])
            for y in ys:
                hists.append([x, y, x2])
    # cross-function histories: the schema check of s (every validator, both expectations) followed by a validation
    # against the same s, and the other way round - the two helpers must not feed each other's answers
    by_schema = {}
    for c in va:
        by_schema.setdefault(c[2], []).append(c)
    for c in sv:
        for v in by_schema.get(c[1], [])[:4]:
            hists.append([c, v])
            hists.append([v, c])
    # confusable keys: two calls of one helper whose keys differ only in the directory of a like-named file or only in the
    # validator class - ALL ordered pairs (a cache keyed too coarsely answers one with the other's result)
    def _bn(p):
        return p.replace('\\', '/').rsplit('/', 1)[-1]
    groups = {}
    for c in sv:
        groups.setdefault(('sv', _bn(c[1])), []).append(c)
    for c in va:
        groups.setdefault(('va', _bn(c[1]), _bn(c[2])), []).append(c)
    n_conf = 0
    for g_ in groups.values():
        if len(set(key_of(c) for c in g_)) < 2:
            continue
        if len(g_) > 40:
            g_ = rng.sample(g_, 40)
        for a in g_:
            for b in g_:
                if key_of(a) != key_of(b):
                    hists.append([a, b])
                    n_conf += 1
    ctx.extra['confusable_key_pairs'] = n_conf
    # the harness-made files are few: ALL ordered pairs of validations among them (two schemas without an id sharing an
    # internal pointer, validator classes that disagree ...)
    sva = [c for c in va if c[2].startswith(SYNTH)]
    for a in sva:
        for b in sva:
            if a != b:
                hists.append([a, b])
    # eviction histories: x, 21 other keys of the same function, x again (both expectations)
    for x in rng.sample(allcalls, 12 if not thorough else 60):
        pool = [c for c in (va if x[0] == 'va' else sv) if key_of(c) != key_of(x) and not c[3]]
        others = []
        seen = set()
        for c in rng.sample(pool, len(pool)):
            if key_of(c) not in seen:
                seen.add(key_of(c))
                others.append(c)
            if len(others) == 21:
                break
        hists.append([x] + others + [x])
        hists.append([x] + others + [key_of(x) + (not x[3],)])
    # throw-away classes one after the other on the same file (a later class may come to live where an earlier one did)
    exts = [c for c in sv if c[2].startswith('ext:')]
    for f in sorted(set(c[1] for c in exts)):
        mine = [c for c in exts if c[1] == f and not c[3]]
        for k in range(4):
            hists.append([mine[(k + i) % len(mine)] for i in range(3 * len(mine))])
    ctx.extra['histories_enumerated'] = len(hists)
    rng.shuffle(hists)
    parts = [hists[i::32] for i in range(32)]
    run_shards(ctx, 'checks.c19', 'shard_histories', [(p, fresh) for p in parts], disjoint=False)
    run_shards(ctx, 'checks.c19', 'shard_machine', [(40 if thorough else 4, fresh, sv, va)] * 16, disjoint=False)
    # 4. histories in REAL fresh processes (one interpreter per history): each call must equal its first-call outcome
    multi = [h for h in hists if len(h) >= 2]
    sample = rng.sample(multi, 150 if thorough else 24)
    run_shards(ctx, 'checks.c19', 'shard_real', [(sample[i::16], fresh) for i in range(16)], disjoint=False)


def shard_real(ctx, payload):
    hists, fresh = payload
    for h in hists:
        got = run_fresh(h)
        ctx.count(len(h))
        ctx.label('history-in-real-fresh-process')
        for i, c in enumerate(h):
            want = fresh[json.dumps(list(c))]
            if got[i] != want:
                vs = examine({'calls': [list(x) for x in h[:i + 1]], 'fresh': fresh})
                for v in vs:
                    v['case']['fresh'] = {json.dumps(x): fresh[json.dumps(x)] for x in v['case']['calls']}
                ctx.violations(vs or [V('same-as-fresh-process', ['history-dependent-only-in-real-process', c[0]],
                                        {'calls': [list(x) for x in h[:i + 1]], 'fresh': {}}, got[i], want)])
                break
        if nontrivial(h):
            ctx.nontrivial(repr(h))
