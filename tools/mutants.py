"""Hand-written mutants for the sensitivity protocol (DESIGN.md §2.6).  Each compiles and is meant to
pass the 92 baseline tests (checked with tools/mut.py --tests)."""
A = 'athlib/athlon_score.py'
MUTANTS = [
 # ---- C01 / C09 -----------------------------------------------------------------
 dict(id='c01-unfix-round', props=['C01', 'C09'], file=A, count=2,
      old='math.floor(round(100* value * age_factor, 6))', new='math.floor(100* value * age_factor)'),
 dict(id='c01-floor-ceil-throws', props=['C01'], file=A,
      old="""    elif PAT_THROWS.match(event_code):
        value = 0.01 * (math.floor(""", new="""    elif PAT_THROWS.match(event_code):
        value = 0.01 * (math.ceil("""),
 dict(id='c01-band-round', props=['C01'], file='athlib/wma/agegrader.py',
      old='self.find_age(int(age // 5) * 5, ages, interpolate=False)',
      new='self.find_age(int(round(age / 5.0)) * 5, ages, interpolate=False)'),
 dict(id='c01-X-4th-decimal', props=['C01'], file=A,
      old='"event_code": "400H", "A": 0.99674, "Z": 103.0, "X": 1.81}', new='"event_code": "400H", "A": 0.99674, "Z": 103.0, "X": 1.8101}'),
 dict(id='c01-no-vet-remap', props=['C01'], file=A,
      old='elif gender == "M" and event_code in ["80H", "100H"]:', new='elif gender == "M" and event_code in ["80H"]:'),
 dict(id='c01-young-unfix', props=['C01'], file=A,
      old='if not age or age < ag.min_age:', new='if not age:'),
 dict(id='c01-int-trunc-to-round', props=['C01'], file=A,
      old="""        if coeffs["Z"] > value:
            points = max(0, int(coeffs["A"]""", new="""        if coeffs["Z"] > value:
            points = max(0, round(coeffs["A"]"""),
 dict(id='c09-floor-round-track', props=['C09'], file=A,
      old='perf = (math.floor(100.0 * (coeffs["Z"]', new='perf = (round(100.0 * (coeffs["Z"]'),
 dict(id='c09-ceil-floor-throws', props=['C09'], file=A,
      old='perf = (math.ceil(100.0 * (((score', new='perf = (math.floor(100.0 * (((score'),
 dict(id='c09-no-clamp', props=['C09'], file=A,
      old="""    if score < 0:
        score = 0

    key""", new="""    key"""),
 dict(id='c09-exponent', props=['C09'], file=A, count=3,
      old='(1.0 / coeffs["X"])', new='(1.0 / (coeffs["X"] + 1e-3))'),
]

T = 'athlib/tyrving_score.py'; Q = 'athlib/qkids_score.py'; S = 'athlib/sportshall_score.py'; B = 'athlib/bulgarian_score.py'
H = 'athlib/hungarian_score.py'
MUTANTS += [
 # ---- C05 / C11 -----------------------------------------------------------------
 dict(id='c05-bulg-swap-rows', props=['C05', 'C11'], file=B,
      old="    9461: 115,\n", new="    9461: 113,\n", count=1),
 dict(id='c05-tyrving-stav-sign', props=['C05', 'C11'], file=T,
      old="else diffs[0]*multipliers[1] if diffs[1]>0", new="else -diffs[0]*multipliers[1] if diffs[1]>0"),
 dict(id='c05-qkids-noclamp', props=['C05', 'C11'], file=Q,
      old="return max(10,min(v,100))", new="return min(v,100)"),
 dict(id='c05-sportshall-ge-gt', props=['C11'], file=S,
      old="if dperf >= Decimal(v1):  # look higher", new="if dperf > Decimal(v1):  # look higher"),
 dict(id='c05-hungarian-round', props=['C05'], file=H,
      old="return floor(a * (performance + b)**2 + c)", new="return round(a * (performance + b)**2 + c + 0.5*((performance*100)%2))"),
 dict(id='c05-tyrving-manual-sign', props=['C05', 'C11'], file=T,
      old="v += inc #correct for manual timing", new="v -= inc #correct for manual timing"),
 dict(id='c11-tyrving-nofuzz', props=['C11'], file=T, count=3,
      old="int(1000 + 1e-8 + ", new="int(1000 + "),
 dict(id='c11-qkids-nofuzz', props=['C11'], file=Q,
      old="v = int(1e-6 + delta/row[0] + 10)", new="v = int(delta/row[0] + 10)"),
 dict(id='c11-tyrving-base-edit', props=['C11'], file=T,
      old="'800': ['race', [800, 1.5, [14, [141, 138.5, 136, 134, 133, 132.5]]]],", new="'800': ['race', [800, 1.5, [14, [141, 138.5, 136.01, 134, 133, 132.5]]]],"),
 dict(id='c11-bulg-clamps', props=['C11'], file=B,
      old="""    if int_perf < min_val:
      return 0
    elif int_perf > max_val:
      return 150""", new="""    if int_perf <= min_val:
      return 0
    elif int_perf > max_val:
      return 150"""),
 dict(id='c11-sportshall-unfuzz', props=['C11'], file=S, count=2,
      old="/  info['increment'] + FUZZ))", new="/  info['increment']))"),
 dict(id='c11-bulg-unround', props=['C11'], file=B,
      old="int_perf = int(round(100 * performance, 6))", new="int_perf = int(100 * performance)"),
 dict(id='c11-sportshall-low-boundary', props=['C11'], file=S,
      old="if dperf <= Decimal(v1):  # look higher", new="if dperf < Decimal(v1):  # look higher"),
]

C = 'athlib/codes.py'
MUTANTS += [
 # ---- C04 -----------------------------------------------------------------------
 dict(id='c04-throw-sh', props=['C04'], file=C,
      old='r"[oO][hH][t' + 'T]|"', new='r"[oO][hH][t' + 'T]|[sS][hH]|"'),
 dict(id='c04-timed-drop-road', props=['C04'], file=C,
      old="PAT_TIMED_EVENT = re.compile(_orjoin(PAT_TRACK, PAT_HURDLES, PAT_ROAD, PAT_RELAYS))",
      new="PAT_TIMED_EVENT = re.compile(_orjoin(PAT_TRACK, PAT_HURDLES, PAT_RELAYS))"),
 dict(id='c04-orjoin-anchor', props=['C04'], file=C,
      old="PAT_LENGTH_EVENT = re.compile(_orjoin(PAT_HORIZONTAL_JUMPS, PAT_THROWS))",
      new="PAT_LENGTH_EVENT = re.compile('^' + PAT_HORIZONTAL_JUMPS.pattern[1:-1] + '|' + PAT_THROWS.pattern[1:-1] + '$')"),
 dict(id='c04-multi-ht', props=['C04'], file=C,
      old='    "PENWT",  # Weights', new='    "PENWT", "HT",  # Weights'),
 dict(id='c04-races-widen', props=['C04'], file=C,
      old=r'(?P<dhours>\d\d?)([hH](?:[rR]|[wW]))', new=r'(?P<dhours>\d\d?)([hH](?:[rR]|[wW])?)'),
 dict(id='c04-finish-record', props=['C04'], file=C,
      old="PAT_FINISH_RECORD = re.compile(_orjoin(PAT_PERF, PAT_FINISHED, PAT_NOT_FINISHED))",
      new="PAT_FINISH_RECORD = re.compile(_orjoin(PAT_PERF, PAT_NOT_FINISHED))"),
]

U = 'athlib/utils.py'
MUTANTS += [
 # ---- C07 -----------------------------------------------------------------------
 dict(id='c07-no-otnum', props=['C07'], file=U, old="gdtnum=_norm_kg,otnum=_norm_g,", new="gdtnum=_norm_kg,"),
 dict(id='c07-sorted-forward', props=['C07'], file=U, old="in sorted(R, reverse=True):", new="in sorted(R):"),
 dict(id='c07-kg-strip-g-only', props=['C07'], file=U,
      old="    if s[-1].lower()=='k': s = s[:-1]\n", new=""),
 dict(id='c07-relay-no-upper', props=['C07'], file=U,
      old="c = '%sx%s' % (rm.group(1),rm.group(2).upper())", new="c = '%sx%s' % (rm.group(1),rm.group(2))"),
 dict(id='c07-no-strip', props=['C07'], file=U,
      old="    c = c.strip()   #remove excess whitespace\n    m =  PAT_EVENT_CODE.match(c)", new="    m =  PAT_EVENT_CODE.match(c)"),
 dict(id='c07-upper-after', props=['C07'], file=U,
      old="""        c = c.upper()
        for ((start,end),repl) in sorted(R, reverse=True):
            c = c[:start] + repl + c[end:] """, new="""        for ((start,end),repl) in sorted(R, reverse=True):
            c = c[:start] + repl + c[end:] 
        c = c.upper()"""),
 dict(id='c07-unfix-ws', props=['C07'], file=U, old="    return ''.join(c.split())\n", new="    return c.replace(' ','')\n"),
 dict(id='c07-unfix-tz', props=['C07'], file=U, old="        s = s.rstrip('0').rstrip('.')\n", new="        while s and s[-1] in ' .0': s = s[:-1]\n"),
 dict(id='c07-g-keeps-g', props=['C07'], file=U,
      old="    if s[-1].lower()=='g': s = s[:-1]\n    return _norm_tzeroes(s)\n", new="    return _norm_tzeroes(s)\n"),
]

MUTANTS += [
 # ---- C10 -----------------------------------------------------------------------
 dict(id='c10-swap-jumps-throws', props=['C10'], edits=[
      (U, "        return 4, order, discipline", "        return 3, order, discipline"),
      (U, "        return 3, order, discipline\n\n    m = PAT_RELAYS", "        return 4, order, discipline\n\n    m = PAT_RELAYS")]),
 dict(id='c10-field-order-swap', props=['C10'], file=C, old='"SP", "DT", "HT", "JT", "CT",', new='"SP", "HT", "DT", "JT", "CT",'),
 dict(id='c10-text-pad4', props=['C10'], file=U, old='return "%d_%05d_%s" % discipline_sort_key(discipline)', new='return "%d_%04d_%s" % discipline_sort_key(discipline)'),
 dict(id='c10-hurdles-distance-const', props=['C10'], file=U,
      old="        distance = int(m.group(1))\n        return 2, distance, discipline", new="        distance = int(m.group(1)[:2])\n        return 2, distance, discipline"),
 dict(id='c10-sorter-unstable', props=['C10'], file=U,
      old="    sorter.sort(key=lambda x: x[0])", new="    sorter.reverse(); sorter.sort(key=lambda x: x[0])"),
 dict(id='c10-relay-legs', props=['C10'], file=U,
      old="        distance = get_distance(m.group(2).upper()) or 0", new="        distance = int(m.group(1))"),
 dict(id='c10-unfix-comma', props=['C10'], file=C, old='"SBT", "SCT",\n', new='"SBT", "SCT"\n'),
 dict(id='c10-relay-distance', props=['C10'], file=U,
      old="        return int(m.group(1)) * leg", new="        return (int(m.group(1)) % 10) * leg"),
]

I = 'athlib/implements.py'
MUTANTS += [
 # ---- C17 -----------------------------------------------------------------------
 dict(id='c17-mass-lt-9', props=['C17'], file=I, old="    if mass < 99:  # kg", new="    if mass < 9:  # kg"),
 dict(id='c17-no-int-collapse', props=['C17'], file=I, old="        mass = int(mass)  # 4.00 becomes integer 4", new="        pass"),
 dict(id='c17-band-heavier', props=['C17'], file=I,
      old="""            elif age_group in ("V60", "V65"):
                return "5.00"
            elif age_group in ("V70", "V75"):
                return "4.00"
            elif _masters_band(age_group) >= 80:
                return "3.00"

        elif gender == "F":
            if age_group == "U13":
                return "2.72\"""", new="""            elif age_group in ("V60", "V65"):
                return "5.00"
            elif age_group in ("V70", "V75"):
                return "4.00"
            elif _masters_band(age_group) >= 80:
                return "4.50"

        elif gender == "F":
            if age_group == "U13":
                return "2.72\""""),
 dict(id='c17-format-space', props=['C17'], file=I, old='    formatted = "%s%s" % (generic_event_code, mass)', new='    formatted = "%s %s" % (generic_event_code, mass)'),
 dict(id='c17-unfix-band', props=['C17'], file=I, count=10, old="_masters_band(age_group) >= ", new='age_group >= "V%d" % '),
 dict(id='c17-tyrving-key', props=['C17', 'C11'], file=T, old="'200H68cm19m': ['race', [200, 0.5, [11, [36, 34, 32.4]]]],", new="'200H8cm19m': ['race', [200, 0.5, [11, [36, 34, 32.4]]]],"),
 dict(id='c17-passthrough', props=['C17'], file=I, old='    if generic_event_code not in ["SP", "HT", "JT", "DT", "WT"]:\n        return generic_event_code',
      new='    if generic_event_code not in ["SP", "HT", "JT", "DT", "WT"]:\n        return generic_event_code.upper()'),
]

MUTANTS += [
 # ---- C12 -----------------------------------------------------------------------
 dict(id='c12-velocity-110', props=['C12'], file=U, old="                if velocity > 11.0:", new="                if velocity > 110.0:"),
 dict(id='c12-no-9999', props=['C12'], file=U, old="        if points > 9999:", new="        if points > 99999:"),
 dict(id='c12-field-1dp', props=['C12'], file=U, old='            return "%0.2f" % distance', new='            return "%0.1f" % distance'),
 dict(id='c12-multi-valueerror', props=['C12'], file=U,
      old="""            raise errorKlass(
                "'%s' is not a valid points value for multi-events\"""", new="""            raise ValueError(
                "'%s' is not a valid points value for multi-events\""""),
 dict(id='c12-too-slow', props=['C12'], file=U, old="            if velocity < 0.5:", new="            if velocity < 0.05:"),
 dict(id='c12-unfix-60', props=['C12'], file=U, old="        if ((minutes or hours) and seconds >= 60) or (hours and minutes >= 60):", new="        if False:"),
 dict(id='c12-record-ulpc', props=['C12'], file=U, old="            if record and round(distance, 2)>record*ulpc:", new="            if record and round(distance, 2)>record*ulpc*ulpc:"),
]

HJ = 'athlib/highjump.py'
MUTANTS += [
 # ---- C02 / C03 / C08 -----------------------------------------------------------
 dict(id='c02-guard-after-padding', props=['C02'], file=HJ,
      old="""        if self.eliminated or self.dismissed:
            what = 'retiring' if self.has_retired else 'being eliminated' if self.eliminated else 'passing'
            raise RuleViolation("Cannot %s after %s" % (label,what))
        atts = self.attempts_by_height
        # they may have skipped some, pas with empty strings
        while len(atts) < height_count:
            atts.append('')
""", new="""        atts = self.attempts_by_height
        # they may have skipped some, pas with empty strings
        while len(atts) < height_count:
            atts.append('')
        if self.eliminated or self.dismissed:
            what = 'retiring' if self.has_retired else 'being eliminated' if self.eliminated else 'passing'
            raise RuleViolation("Cannot %s after %s" % (label,what))
"""),
 dict(id='c02-pass-resets-failures', props=['C02'], file=HJ,
      old="        self.attempts_by_height[-1] += '-'\n        self.dismissed = True", new="        self.attempts_by_height[-1] += '-'\n        self.consecutive_failures = 0\n        self.dismissed = True"),
 dict(id='c02-bar-equal-ok', props=['C02'], file=HJ, old="(prev_height >= new_height)", new="(prev_height > new_height)"),
 dict(id='c02-no-dismiss-reset', props=['C02'], file=HJ, old="            if not j.eliminated:\n                j.dismissed = False", new="            if not j.eliminated and self.state!='won':\n                j.dismissed = False"),
 dict(id='c02-log-before', props=['C02'], file=HJ,
      old="        jumper.failed(len(self.heights), self.bar_height)\n        self.actions.append(('failed', bib))", new="        self.actions.append(('failed', bib))\n        jumper.failed(len(self.heights), self.bar_height)"),
 dict(id='c02-late-add', props=['C02'], file=HJ, old="        if self.state!='scheduled':\n            raise RuleViolation(\"Cannot add jumpers", new="        if self.state not in ('scheduled','started'):\n            raise RuleViolation(\"Cannot add jumpers"),
 dict(id='c02-unfix-reinstate', props=['C02', 'C03'], file=HJ, old="                    if self.state=='jumpoff' and len(j.attempts_by_height)<len(self.heights):", new="                    if False:"),
 dict(id='c03-unfix-best', props=['C03'], file=HJ, old="        if height > self.highest_cleared:\n", new="        if True:\n"),
 dict(id='c03-drop-third-key', props=['C03'], file=HJ, old="            failures_at_height,\n            failures_before_and_at_height,\n            )", new="            failures_at_height,\n            0,\n            )"),
 dict(id='c03-failures-after-best', props=['C03'], file=HJ, old="sum(_.count('x') for _ in self.attempts_by_height[:x])", new="sum(_.count('x') for _ in self.attempts_by_height) - failures_at_height"),
 dict(id='c03-dense-ranking', props=['C03'], file=HJ, old="                    j._place = i + 1", new="                    j._place = pj._place + 1"),
 dict(id='c03-status-swap', props=['C03'], file=HJ, old="(3 if x<0 else 2) if self.eliminated else (1 if x<0 else 0)", new="(2 if x<0 else 3) if self.eliminated else (1 if x<0 else 0)"),
 dict(id='c03-tie-detect-last', props=['C03', 'C02'], file=HJ, old="if len(rankj)> 1 and rankj[1]._place==1:", new="if len(rankj)> 1 and rankj[-1]._place==1:"),
 dict(id='c03-place-for-unplaced', props=['C03'], file=HJ, old="        elif self.highest_cleared_index<0:\n            return ''", new="        elif self.highest_cleared_index<0 and not self.eliminated:\n            return ''"),
]

MUTANTS += [
 dict(id='c08-replay-skips-pass', props=['C08'], file=HJ,
      old="        for a, v in actions:\n            m = getattr(hj,a)", new="        for a, v in actions:\n            if a=='passed': continue\n            m = getattr(hj,a)"),
 dict(id='c08-oldpos-leaks', props=['C08', 'C03'], file=HJ,
      old="                if k == pk:\n                    j._place = pj._place", new="                if k == pk and j.bib > pj.bib:\n                    j._place = pj._place"),
 dict(id='c08-from-matrix-athlete-major', props=['C08'], file=HJ,
      old="""            for a in _012:
                for d in dikts:
                    if d['order'] in ('DNS','DQ'): continue
                    bib = d['bib']
                    name  = d.get('last_name', '')
                    attempts = d.get(height_key, '')
                    if len(attempts) > a:
                        result = attempts[a]""", new="""            for d in dikts:
                for a in _012:
                    if d['order'] in ('DNS','DQ'): continue
                    bib = d['bib']
                    name  = d.get('last_name', '')
                    attempts = d.get(height_key, '')
                    if len(attempts) > a and self.state in ('started', 'jumpoff'):
                        result = attempts[a]"""),
 dict(id='c08-matrix-1dp', props=['C08'], file=HJ, old="R = [keys + ['%.2f'%h for h in self.heights]]", new="R = [keys + ['%.1f'%h for h in self.heights]]"),
 dict(id='c08-won-needs-order', props=['C08', 'C02'], file=HJ,
      old="                and 'o' in remj[0].attempts_by_height[-1]):", new="                and remj[0].attempts_by_height[-1].endswith('o') and remj[0].dismissed and self.actions[-1][1]==remj[0].bib):"),
 dict(id='c08-trials-drop-retired', props=['C08'], file=HJ, old="    action_letter = dict(cleared='o', failed='x', passed='-', retired='r')", new="    action_letter = dict(cleared='o', failed='x', passed='-', retired='x')"),
]

MUTANTS += [
 # ---- C06 -----------------------------------------------------------------------
 dict(id='c06-no-maxdp', props=['C06'], file=U, old="        f = f[:maxDP]\n", new=""),
 dict(id='c06-carry-gt60', props=['C06'], file=U, old="            if secs==60:", new="            if secs>60:"),
 dict(id='c06-no-lstrip', props=['C06'], file=U, old="        t = t.lstrip('0')\n", new=""),
 dict(id='c06-secs-d', props=['C06'], file=U, old='        t = "%d:%02d" % (mins, secs)', new='        t = "%d:%d" % (mins, secs)'),
 dict(id='c06-parse-colon-only', props=['C06'], file=U, old="    for sep in ':;':\n        if sep not in t:", new="    for sep in ':':\n        if sep not in t:"),
 dict(id='c06-sec-mul-after', props=['C06'], file=U,
      old="            sec *= 60\n\n            try:\n                sec += str2num(s)\n            except ValueError:\n                raise ValueError('cannot parse seconds from %s' % repr(t))",
      new="            try:\n                sec += str2num(s)\n            except ValueError:\n                raise ValueError('cannot parse seconds from %s' % repr(t))\n            sec *= 60"),
 dict(id='c06-unfix-repr', props=['C06'], file=U, old="round_up_str_num('%.9f' % frac,prec)", new="round_up_str_num(repr(frac),prec)"),
 dict(id='c06-hours-carry', props=['C06'], file=U, old="                if mins==60:\n                    mins = 0\n                    hours += 1", new="                if mins==60:\n                    mins = 0"),
]

AG = 'athlib/uka/agegroups.py'
MUTANTS += [
 # ---- C13 -----------------------------------------------------------------------
 dict(id='c13-prior-ge', props=['C13'], file=AG, old="    if x > match_date:", new="    if x >= match_date:"),
 dict(id='c13-aug30', props=['C13'], file=AG, old="    august_cutoff = date(match_date.year, 8, 31)", new="    august_cutoff = date(match_date.year, 8, 30)"),
 dict(id='c13-dec-le20', props=['C13'], file=AG, old="        if age_on_31_dec < 20:", new="        if age_on_31_dec <= 20:"),
 dict(id='c13-masters-round', props=['C13'], file=AG, count=2, old='return "V%02d" % (int(age_on_match_day // 5) * 5)', new='return "V%02d" % (int(round(age_on_match_day / 5.0)) * 5)'),
 dict(id='c13-xc-u13-none', props=['C13'], file=AG, old="    elif age_on_31_aug in [10, 11, 12]:", new="    elif age_on_31_aug in [11, 12]:"),
 dict(id='c13-dayfirst', props=['C13'], file=AG, old="""    if isStr(birth_date):
        birth_date = parse_date(birth_date)

    cutoff_date""", new="""    if isStr(birth_date):
        birth_date = parse_date(birth_date, dayfirst=True)

    cutoff_date"""),
 dict(id='c13-xc-underage-day', props=['C13'], file=AG, old="    if underage and age_on_match_day < 9:", new="    if underage and age_on_match_day <= 9:"),
 dict(id='c13-tf-vets-34', props=['C13'], file=AG, old="            if age_on_match_day < 35:\n                return \"SEN\"\n            else:\n                # V35, V40, V45 etc\n                if vets:\n                    return \"V%02d\" % (int(age_on_match_day // 5) * 5)\n                else:\n                    return \"SEN\"\n\n\ndef rule507",
      new="            if age_on_31_dec < 35:\n                return \"SEN\"\n            else:\n                # V35, V40, V45 etc\n                if vets:\n                    return \"V%02d\" % (int(age_on_match_day // 5) * 5)\n                else:\n                    return \"SEN\"\n\n\ndef rule507"),
]

WG = 'athlib/wma/agegrader.py'
MUTANTS += [
 # ---- C14 / C15 -----------------------------------------------------------------
 dict(id='c14-interp-swapped', props=['C14'], file=WG, old="(1 - pfac) * ((page * faca) + ((1 - page) * fac))", new="(1 - pfac) * (((1 - page) * faca) + (page * fac))"),
 dict(id='c14-jump-inverse', props=['C14'], file=WG, old="            age_grade = float_performance / age_group_best", new="            age_grade = age_group_best / float_performance"),
 dict(id='c14-no-upper', props=['C14'], file=WG, old="        kind = self.event_code_to_kind(event)\n        event = event.upper()\n\n        gender = self.normalize_gender(gender)", new="        kind = self.event_code_to_kind(event)\n\n        gender = self.normalize_gender(gender)"),
 dict(id='c14-fx-offset', props=['C14'], file=WG, old="        FX = table[fx][3:]\n        FX1 = table[fx1][3:]", new="        FX = table[fx][2:]\n        FX1 = table[fx1][2:]"),
 dict(id='c14-gender-lower-only', props=['C14'], file=WG, old="        g = gender.lower()\n\n        if g:", new="        g = gender\n\n        if g:"),
 dict(id='c14-unfix-na', props=['C14'], file=WG, old="            ax = ax1 = na - 1\n", new="            ax = ax1 = na - 2\n"),
 dict(id='c14-athlon-band', props=['C14', 'C01'], file=WG, old="self.find_age(int(age // 5) * 5, ages, interpolate=False)", new="self.find_age(int(age // 5) * 5 + 1, ages, interpolate=False)"),
]

MUTANTS += [
 dict(id='c15-pfac-swapped', props=['C15'], file=WG, old="v_averaged = v_longer_best + ((1 - self._pfac) * (v_shorter_best - v_longer_best))", new="v_averaged = v_longer_best + ((self._pfac) * (v_shorter_best - v_longer_best))"),
 dict(id='c15-scan-from-0', props=['C15'], file=WG, old='        while table[i][0] != "50":\n            i += 1\n', new=''),
 dict(id='c15-k-times-100', props=['C15'], file=U, old="    elif remains in ('k', 'K', 'km'):\n        return int(1000 * qty)", new="    elif remains in ('k', 'K', 'km'):\n        return int(1000 * qty) if qty == int(qty) else int(100 * qty)"),
 dict(id='c15-unfix-zero', props=['C15'], file=WG, old="            if distance_longer == distance_shorter:", new="            if False:"),
 dict(id='c15-extrapolate-short', props=['C15'], file=WG, old="            if distance_shorter is None:  # really short sprint, \n                return factor_longer", new="            if distance_shorter is None:  # really short sprint, \n                return factor_longer * 1.01"),
]

MUTANTS += [
 # ---- C19 -----------------------------------------------------------------------
 dict(id='c19-key-json-only', props=['C19'], file=U, old="    t = (json_file,schema_file)\n", new="    t = (json_file,)\n"),
 dict(id='c19-cache-not-v', props=['C19'], file=U, old="        c.pop(k, None)\n    c[t] = v\n    return v", new="        c.pop(k, None)\n    c[t] = not v if len(c) > 15 else v\n    return v"),
 dict(id='c19-evict-wrong', props=['C19'], file=U, old="    c[t] = v\n    return v", new="    c[t] = v\n    if len(c) >= maxlen: c[next(iter(c))] = v\n    return v"),
 dict(id='c19-unfix', props=['C19'], file=U, old="    if t in _schema_valid_cache and (_schema_valid_cache[t] or not expect_failure):", new="    if t in _schema_valid_cache:"),
 dict(id='c19-validator-not-in-key', props=['C19'], file=U, old="    t = (schema_file,validator)\n", new="    t = (schema_file,)\n"),
 dict(id='c19-cache-raise-as-false', props=['C19'], file=U, old="""                if not expect_failure:
                    print(e)
                    return _add_to_cache(_valid_against_schema_cache,t,False)
                else:
                    raise""", new="""                if not expect_failure:
                    print(e)
                    return _add_to_cache(_valid_against_schema_cache,t,False)
                else:
                    _add_to_cache(_valid_against_schema_cache,t,True)
                    raise"""),
]

SP = 'athlib/sportshall_score.py'
MUTANTS += [
 # ---- C16 -----------------------------------------------------------------------
 dict(id='c16-sportshall-publish-early', props=['C16'], edits=[
      (SP, "    if not _DB:\n        _DB = load_data()", "    if _DB is None:\n        _DB = {}\n        load_data(_DB)"),
      (SP, "def load_data() -> Dict:", "def load_data(db=None) -> Dict:"),
      (SP, "    db = {}\n    for (code, info) in data_by_event_code.items():", "    db = {} if db is None else db\n    for (code, info) in data_by_event_code.items():")]),
 dict(id='c16-performance-global-scratch', props=['C16'], edits=[
      (A, "    if score < 0:\n        score = 0\n\n    key = scoring_key(gender, event_code)", "    if score < 0:\n        score = 0\n\n    global _last_key\n    _last_key = scoring_key(gender, event_code)\n    key = scoring_key(gender, event_code)"),
      (A, "    coeffs = _scoring_objects[key]\n\n    if PAT_JUMPS.match(event_code):\n        perf = int(", "    coeffs = _scoring_objects[_last_key]\n\n    if PAT_JUMPS.match(event_code):\n        perf = int(")]),
 dict(id='c16-unfix-publish', props=['C16'], file=A, old="        objects = {}\n\n        for o in _scoring_table:\n            objects[scoring_key(o[\"gender\"], o[\"event_code\"])] = o\n\n        # publish only when complete: another thread may already be reading\n        _scoring_objects = objects",
      new="        _scoring_objects = objects = {}\n\n        for o in _scoring_table:\n            objects[scoring_key(o[\"gender\"], o[\"event_code\"])] = o"),
 dict(id='c16-unlock-world-best', props=['C16'], file=WG, old="    @_serialised\n    def world_best(self, gender, event):", new="    def world_best(self, gender, event):"),
 dict(id='c16-unfix-evict', props=['C16'], file=U, old="    for k in list(c)[max(maxlen-1, 0):]:\n        c.pop(k, None)", new="    it = reversed(c)\n    while len(c) >= maxlen:\n        c.pop(next(it))"),
]

JT = 'js/src/tyrving_score.js'; JQ = 'js/src/qkids_score.js'; JU = 'js/src/utils.js'
MUTANTS += [
 # ---- C18 -----------------------------------------------------------------------
 dict(id='c18-js-base-edit', props=['C18'], file=JT, old="'800': ['race', [800, 1.5, [14, [141, 138.5, 136, 134, 133, 132.5]]]],", new="'800': ['race', [800, 1.5, [14, [141, 138.5, 136.1, 134, 133, 132.5]]]],"),
 dict(id='c18-js-qkids-nofuzz', props=['C18'], file=JQ, old="1e-6 + ", new="", count=1),
 dict(id='c18-js-pad', props=['C18'], file=JU, old="else if (mins) t = [mins + '', pad(secs, 2)];", new="else if (mins) t = [mins + '', pad(secs, 1)];"),
 dict(id='c18-py-tyrving-nofuzz', props=['C18'], file=T, count=3, old="int(1000 + 1e-8 + ", new="int(1000 + "),
 dict(id='c18-py-carry', props=['C18'], file=U, old="            if secs==60:", new="            if secs>60:"),
 dict(id='c18-js-unfix-hand', props=['C18'], file=JT, old="[40, 60, 80, 300].indexOf(dist) >= 0 ? 0.20", new="[40, 60, 80, 300].indexOf(v) >= 0 ? 0.20"),
 dict(id='c18-js-hand-timing', props=['C18'], file=JU, old="  return dp < 0 || (perf.length - dp) < 3;", new="  return dp < 0 || (perf.length - dp) < 2;"),
 dict(id='c18-js-parse-sep', props=['C18'], file=JU, old="  for (sep in { ':': null, ';': null }) {", new="  for (sep in { ':': null }) {"),
]

MUTANTS += [
 # ---- history-dependence mutants (state carried between calls) --------------------
 dict(id='hist-sportshall-memo', props=['C11'], edits=[
      (SP, "_DB = None\n", "_DB = None\n_memo = {}\n"),
      (SP, "    perf = Decimal(perf)\n    ec = event_code.upper()\n", "    perf = Decimal(perf)\n    ec = event_code.upper()\n    if (ec[:1], perf) in _memo: return _memo[(ec[:1], perf)]\n"),
      (SP, "        return score_high_event(perf, event_info, verbose=verbose)\n    else:", "        return _memo.setdefault((ec[:1], perf), score_high_event(perf, event_info, verbose=verbose))\n    else:")]),
 dict(id='hist-athlon-esaa-inplace', props=['C01'], file=A,
      old="""        coeffs = {
            "gender": "M", 
            "event_code": "800", 
            "A": 0.232, "Z": 200.0, 
            "X": 1.85
        }""", new="""        coeffs.update(A=0.232, Z=200.0)"""),
 dict(id='hist-qkids-last-table', props=['C18'], edits=[
      (Q, "    table = _qkidsTables.get(competition_type,None)\n", "    table = _qkidsTables.get(competition_type,None) or _last.get('t')\n    _last['t'] = table\n"),
      (Q, "def qkids_score(", "_last = {}\ndef qkids_score(")]),
]

MUTANTS += [
 dict(id='c12-relay-distance-leg', props=['C12', 'C10'], file=U, old="        return int(m.group(1)) * leg", new="        return leg"),
 dict(id='c12-record-gender-case', props=['C12'], file=U, old="    gender = gender.lower()\n    if gender not in FIELD_EVENT_RECORDS_BY_GENDER:", new="    if gender not in FIELD_EVENT_RECORDS_BY_GENDER:"),
 dict(id='c12-marathon-distance', props=['C12'], file=U, old="    elif discipline == 'MAR':\n        return 42195", new="    elif discipline == 'MAR':\n        return 4219"),
]
