#!/venv/bin/python
"""Evaluate a seeded change (a directory with patch.diff + demo.py [+ notes.md]).

  tools/seedtest.py <dir> [--props C01,C09] [--tier quick] [--all]

Steps, all in a scratch copy of /repo under /dev/shm (removed afterwards): apply the patch; baseline suite must still
pass; demo.py must exit 1 on the patched copy and 0 on /repo; run the named checks (default: the property in
meta.json / directory name; --all = every check) against the copy.  Prints a JSON summary.
"""
import argparse, json, os, shutil, subprocess, sys, tempfile, time


def run_check(cmd, env, limit=2400):
    """Run a check in its own process group; kill the whole group when it exceeds `limit` seconds (rc 124)."""
    import signal
    p = subprocess.Popen(cmd, env=env, stdout=subprocess.PIPE, stderr=subprocess.STDOUT, text=True, start_new_session=True)
    try:
        out, _ = p.communicate(timeout=limit)
        return p.returncode, out
    except subprocess.TimeoutExpired:
        os.killpg(p.pid, signal.SIGKILL)
        out, _ = p.communicate()
        return 124, (out or '') + '\nTIMEOUT after %d s' % limit

V = os.path.dirname(os.path.dirname(os.path.abspath(__file__)))
ap = argparse.ArgumentParser()
ap.add_argument('dir'); ap.add_argument('--props'); ap.add_argument('--tier', default='quick'); ap.add_argument('--all', action='store_true')
ap.add_argument('--seed', default='1')
a = ap.parse_args()
d = os.path.abspath(a.dir)
meta = {}
if os.path.exists(os.path.join(d, 'meta.json')):
    meta = json.load(open(os.path.join(d, 'meta.json')))
props = a.props.split(',') if a.props else [meta.get('property') or os.path.basename(d)[:3]]
if a.all:
    props = ['C%02d' % i for i in range(1, 20)]
root = tempfile.mkdtemp(prefix='athlib-seed-', dir='/dev/shm')
res = {'dir': d, 'props': {}}
try:
    repo = os.path.join(root, 'repo')
    shutil.copytree('/repo', repo, ignore=shutil.ignore_patterns('.git', 'node_modules', '__pycache__', '_seed'))
    p = subprocess.run(['patch', '-p1', '-s', '-i', os.path.join(d, 'patch.diff')], cwd=repo, stdout=subprocess.PIPE, stderr=subprocess.STDOUT, text=True)
    res['patch_applies'] = p.returncode == 0
    if p.returncode:
        res['patch_output'] = p.stdout[-500:]
    else:
        r = subprocess.run([os.path.join(V, 'tools', 'baseline.py'), repo], stdout=subprocess.PIPE, text=True)
        res['baseline_passes'] = r.returncode == 0
        if r.returncode: res['baseline_output'] = r.stdout[-600:]
        demo = os.path.join(d, 'demo.py')
        if os.path.exists(demo):
            for name, tree in (('demo_patched_rc', repo), ('demo_unpatched_rc', '/repo')):
                env = dict(os.environ, PYTHONPATH=tree, ATHLIB_TREE=tree)
                q = subprocess.run(['/venv/bin/python', demo, tree], cwd=tree, env=env, stdout=subprocess.PIPE, stderr=subprocess.STDOUT, text=True, timeout=600)
                res[name] = q.returncode
                res[name.replace('_rc', '_out')] = q.stdout[-300:]
        for prop in props:
            env = dict(os.environ, VERIF_REPO=repo, VERIF_OUT=os.path.join(root, 'out'), VERIF_SEED=a.seed)
            t0 = time.time()
            rc, out = run_check([os.path.join(V, 'check'), prop, '--tier', a.tier], env)
            sigs = [l.split('sig=')[1].split(' ')[0] for l in out.splitlines() if l.startswith('violation:')]
            res['props'][prop] = {'rc': rc, 'verdict': {0: 'missed', 1: 'caught', 2: 'harness-error', 124: 'timeout'}.get(rc, '?'),
                                  'wall_s': round(time.time() - t0, 1), 'signatures': sigs[:8]}
            if rc in (2, 124): res['props'][prop]['tail'] = out[-800:]
finally:
    shutil.rmtree(root, ignore_errors=True)
print(json.dumps(res, indent=1))
