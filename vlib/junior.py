"""Exact oracles for Tyrving, QuadKids, Sportshall and Bulgarian U16 scoring (C05, C11, C18).

Tables are read from the library's data structures at run time and evaluated in Fraction
arithmetic through their decimal literals; formulas are re-implemented from the property text
and the modules' documented conventions.
"""
from fractions import Fraction

from .exact import frac
from .lib import mod

# ---------------------------------------------------------------------------------------------
# Tyrving

def tyrving_tables():
    return mod('tyrving_score')._tyrvingTables


def _base(age, yv):
    if isinstance(yv, dict):
        b = yv.get(age)
    else:
        y, v = yv
        b = v[age - y] if y <= age < y + len(v) else None
    return None if b is None else frac(b)


def tyrving_ages(params):
    """Ages for which the row defines a base performance."""
    kind, args = params
    yvs = [args[2]] if kind == 'race' else [args[1]] if kind == 'jump' else list(args[1])
    ages = None
    for yv in yvs:
        a = set(yv.keys()) if isinstance(yv, dict) else set(range(yv[0], yv[0] + len(yv[1])))
        ages = a if ages is None else ages & a
    return sorted(ages)


MANUAL_INC = {100: Fraction(24, 100), 110: Fraction(24, 100), 200: Fraction(24, 100),
              40: Fraction(20, 100), 60: Fraction(20, 100), 80: Fraction(20, 100),
              300: Fraction(20, 100), 400: Fraction(14, 100)}


def tyrving_exact(params, age, v, manual=False):
    """Points for the exact mark v (Fraction; seconds or metres).  None if the age is not tabulated."""
    kind, args = params
    if kind == 'race':
        dist, mult, yv = args
        base = _base(age, yv)
        if base is None:
            return None
        if manual:
            v = v + MANUAL_INC.get(dist, 0)
        x = 1000 + (base - v) * frac(mult) * (100 if dist <= 500 else 10)
    elif kind == 'jump':
        mult, yv = args
        base = _base(age, yv)
        if base is None:
            return None
        x = 1000 + frac(mult) * (v - base) * 100
    else:
        mults, yvs = args
        lv = [_base(age, yv) for yv in yvs]
        if any(l is None for l in lv):
            return None
        d0 = 100 * (v - lv[0])
        d1 = 100 * (v - lv[1])
        if d0 >= 0:
            x = 1000 + d0 * frac(mults[0])
        elif d1 > 0:
            x = 1000 + d0 * frac(mults[1])
        else:
            x = lv[2] + d1 * frac(mults[2])
    return max(0, x.numerator // x.denominator)


# ---------------------------------------------------------------------------------------------
# QuadKids

def qkids_tables():
    return mod('qkids_score')._qkidsTables


def qkids_exact(row, v, timed):
    delta = (frac(row[1]) - v) if timed else (v - frac(row[1]))
    x = delta / frac(row[0]) + 10
    return max(10, min(x.numerator // x.denominator, 100))


# ---------------------------------------------------------------------------------------------
# Sportshall

SH_HIGH = ('SLJ', 'SHJ', 'STJ', 'SP', 'BAL', 'SPB', 'TART', 'OHT', 'CHT', 'JT')


def sportshall_tables():
    """{code: dict(high, thresholds=[(points, Fraction)], inc=Fraction|None|'unspecified', incpoints)}
    parsed independently from RAWDATA."""
    raw = mod('sportshall_score').RAWDATA
    cols = list(zip(*raw))
    keys = cols[0]
    out = {}
    for col in cols[1:]:
        d = dict(zip(keys, col))
        code = d['code']
        thr = []
        for p in range(1, 81):
            t = d[str(p)]
            if t == '-':
                continue
            v = frac(t)
            if code == 'SHJ':      # column is in centimetres, marks are given in metres
                v = v / 100
            thr.append((p, v))
        inctext = d['increment'].strip()
        if inctext.endswith('cm'):
            inc = frac(inctext[:-2]) / 100
        elif inctext.endswith('sec'):
            inc = frac(inctext[:-3])
        elif inctext == 'n/a':
            inc = None
        elif inctext.endswith('m') and inctext[:-1].replace('.', '').isdigit():
            inc = 'unspecified'    # '1m' (indoor javelin): the library does not parse bare metres
        else:
            inc = 'unspecified'    # '1 no.' etc.: the sheet's meaning is not parseable as a length/time
        ip = d['incpoints']
        out[code] = dict(high=code in SH_HIGH, thresholds=thr, inc=inc,
                         incpoints=int(ip) if ip.isdigit() else 0)
    return out


def sportshall_exact(info, v):
    """Points for exact mark v, or ('at-least', n) where the sheet's increment is not parseable."""
    thr = info['thresholds']
    maxp, maxv = thr[-1]
    beyond = (v > maxv) if info['high'] else (v < maxv)
    if beyond:
        inc = info['inc']
        if inc is None:
            return maxp
        if inc == 'unspecified':
            return ('at-least', maxp)
        excess = (v - maxv) if info['high'] else (maxv - v)
        steps = excess / inc
        return maxp + (steps.numerator // steps.denominator) * info['incpoints']
    best = 0
    for p, t in thr:
        if (v >= t) if info['high'] else (v <= t):
            best = max(best, p)
    return best


# ---------------------------------------------------------------------------------------------
# Bulgarian U16

BG_TIMED = ('60', '100', '200', '600', '800', '60H', '100H')
BG_FIELD = ('SP', 'LJ', 'HJ')


def bulgarian_tables():
    return mod('bulgarian_score').scores


def bulgarian_exact(table, event, c):
    """Points for centi-mark c; 'missing-row' if the table has no row inside its own range."""
    lo, hi = table['min'], table['max']
    if event in BG_TIMED:
        if c > lo:
            return 0
        if c < hi:
            return 150
    else:
        if c < lo:
            return 0
        if c > hi:
            return 150
    return table.get(c, 'missing-row')
