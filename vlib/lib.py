"""Access to the code under test."""
import os
import sys
import traceback
import linecache

from .harness import REPO

import athlib  # noqa: E402  (PYTHONPATH puts /repo first; vlib.run asserts it)

ATHLIB_DIR = os.path.realpath(os.path.join(REPO, 'athlib'))


def mod(name):
    """Sub-module by dotted name (package re-exports shadow e.g. athlib.athlon_score)."""
    full = 'athlib.' + name
    if full not in sys.modules:
        __import__(full)
    return sys.modules[full]


def innermost_athlib_frame(tb):
    """(function, stripped source line) of the innermost frame inside athlib."""
    found = None
    for fs in traceback.extract_tb(tb):
        try:
            if os.path.realpath(fs.filename).startswith(ATHLIB_DIR):
                found = (fs.name, (fs.line or '').strip())
        except Exception:
            pass
    return found or ('<outside athlib>', '')


def call(f, *a, **k):
    """Run f; return ('ret', value) or ('exc', ExceptionTypeName, message, (func, line))."""
    try:
        return ('ret', f(*a, **k))
    except Exception as e:
        return ('exc', type(e).__name__, str(e)[:200], innermost_athlib_frame(e.__traceback__))


def is_exc(r, *names):
    return r[0] == 'exc' and (not names or r[1] in names)
