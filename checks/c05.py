"""C05 — a better performance never scores fewer points, in any scoring system."""
import math
import random
from fractions import Fraction

import athlib
from vlib import athlon, junior
from vlib.exact import centi_float
from vlib.harness import V, derive_seed, run_shards
from vlib.lib import call, mod

PROPERTY = 'C05'
AMBIENT_PASS = 'thorough-only'       # (thorough tier only: it doubles an 80 s check) the same search once more under unusual ambient settings (vlib.run.AMBIENT_SETTINGS)
RULE = ('adjacent pairs (c, c+1) of centi-marks for every table/event/gender/age of each system (combined events with '
        'age None + every masters band + ESAA, Hungarian 145 keys, Tyrving every age of every row in automatic and '
        'hand-timed text form, QuadKids, Sportshall, Bulgarian), swept as runs of consecutive marks from well below to '
        'well beyond the tabulated range (whole range or seeded windows + all thresholds, by tier); metamorphic oracle: '
        'better mark => points >=; plus integer type and per-system bounds; non-trivial = a pair whose two marks score '
        'differently (straddles a change of points); distinct by (system, table, mark)')
ASSUMPTIONS = ['Hungarian: range restricted to marks no slower than the zero-point of the parabola (timed) / from the zero '
               'of the parabola up to the 1400-point mark (field), as the property states']
RULE = RULE + '; Tyrving hand-timed texts also in the minute forms m:ss.t, m.ss.t, m:ss,t and from one hour up h:mm:ss.t / h.mm.ss.t / h:mm:ss.xx'
RULE = RULE + '; every Sportshall sweep once more after - and interleaved with - verbose=True calls below, inside, at the top of and beyond the table'


def fmt2(c):
    return '%d.%02d' % (c // 100, c % 100)


def fmt1(c):
    return '%d.%d' % (c // 100, (c % 100) // 10)


def _mss2(c):
    m, r = divmod(c, 6000)
    return '%d:%02d.%02d' % (m, r // 100, r % 100) if m else fmt2(c)


def _mss1(c):
    m, r = divmod(c, 6000)
    return '%d:%02d.%d' % (m, r // 100, (r % 100) // 10) if m else fmt1(c)


def _hms(c, dec):
    """h:mm:ss.xx / h:mm:ss.t from one hour up (the long walks), the minute form below."""
    h, r = divmod(c, 360000)
    if not h:
        return _mss2(c) if dec == 2 else _mss1(c)
    m, r = divmod(r, 6000)
    return ('%d:%02d:%02d.%02d' % (h, m, r // 100, r % 100)) if dec == 2 else ('%d:%02d:%02d.%d' % (h, m, r // 100, (r % 100) // 10))


def _short(c, clock=False):
    """The mark as a person writes it: no more decimals than needed (95.2, 95.19, 95), as m:ss[.d[d]] when `clock`."""
    whole, frac = divmod(c, 100)
    dec = '' if not frac else ('.%d' % (frac // 10) if frac % 10 == 0 else '.%02d' % frac)
    if clock and whole >= 60:
        return '%d:%02d%s' % (whole // 60, whole % 60, dec)
    return '%d%s' % (whole, dec)


def _dot2(c):
    return _mss2(c).replace(':', '.')       # Norwegian m.ss.hh


def _dot1(c):
    return _mss1(c).replace(':', '.')       # Norwegian m.ss.t (hand-timed)


# ---------------------------------------------------------------------------------------------
# one generic examiner: a run of consecutive marks of one scoring context

def context(case):
    """(function c -> call result, lower_is_better, lo_bound, hi_bound) for a case's scoring context."""
    s = case['system']
    if s == 'athlon':
        g, e, age, esaa = case['gender'], case['event'], case.get('age'), case.get('esaa', False)
        kw = {}
        if age is not None:
            kw['age'] = age
        if esaa:
            kw['esaa'] = True
        timed = athlon.kind_of(e) == 'timed'
        gs, es = case.get('spelling', (g, e))      # the pair as the caller spells it (the scoring key folds letter case)
        return (lambda c: call(athlib.athlon_score, gs, es, centi_float(c), **kw)), timed, 0, None
    if s == 'hungarian':
        g, io, e = case['gender'], case['inout'], case['event']
        timed = case['timed']
        return (lambda c: call(athlib.hungarian_score, g, io, e, centi_float(c))), timed, 0, None
    if s == 'tyrving':
        g, e, age, form = case['gender'], case['event'], case['age'], case.get('form', 'float')
        params = junior.tyrving_tables()[g][e]
        timed = params[0] == 'race'
        conv = {'float': centi_float, 'text2': fmt2, 'text1': fmt1, 'mss2': _mss2, 'mss1': _mss1, 'dot2': _dot2, 'dot1': _dot1,
                'comma1': lambda c: fmt1(c).replace('.', ','), 'hms2': lambda c: _hms(c, 2), 'hms1': lambda c: _hms(c, 1),
                'hdot1': lambda c: _hms(c, 1).replace(':', '.')}[form]
        sp = case.get('spelling', e)        # the event as the caller spells it (normalises to the key e)
        return (lambda c: call(athlib.tyrving_score, g, age, sp, conv(c))), timed, 0, None
    if s == 'qkids':
        ct, e = case['comp'], case['event']
        timed = bool(athlib.PAT_RUN.match(e))
        sp = case.get('spelling', e)
        return (lambda c: call(athlib.qkids_score, ct, sp, centi_float(c))), timed, 10, 100
    if s == 'sportshall':
        e = case['event']
        return (lambda c: call(athlib.sportshall_score, e, fmt2(c))), e not in junior.SH_HIGH, 0, None
    if s == 'bulgarian':
        key = case['table']
        g, e = key[3], key[4:]
        score = mod('bulgarian_score').score
        form = case.get('form', 'float')
        conv = {'float': centi_float, 'text2': fmt2, 'short': _short, 'mss-short': lambda c: _short(c, True)}[form]
        return (lambda c: call(score, 'U16', g, e, conv(c))), e in junior.BG_TIMED, 0, 150
    raise ValueError(s)


def examine(case, ctx=None):
    """case: scoring context + 'lo', 'hi' (inclusive centi range) [+ 'step'].  Checks every adjacent pair."""
    if case.get('perturb') and ctx is None:
        from checks.c01 import reset_state      # replay: from the just-imported state
        reset_state()
    f, lower_better, lob, hib = context(case)
    step = case.get('step', 1)
    lo, hi = case['lo'], case['hi']
    out = []
    sysname = case['system']
    import contextlib, io
    if case.get('after_verbose'):
        ts_ = [int(t * 100) for p, t in junior.sportshall_tables()[case['event']]['thresholds']]
        with contextlib.redirect_stdout(io.StringIO()):
            for c_ in (lo, min(ts_), (min(ts_) + max(ts_)) // 2, max(ts_), max(ts_) + 1, hi, case['after_verbose']):
                call(athlib.sportshall_score, case['event'], fmt2(c_), verbose=True)
                if min(ts_) <= c_ <= max(ts_):
                    call(athlib.sportshall_score, case['event'], centi_float(c_), True)
    ctxkey = tuple(sorted((k, str(v)) for k, v in case.items() if k not in ('lo', 'hi', 'kind')))
    rng = range(hi, lo - 1, -step) if not lower_better else range(lo, hi + 1, step)
    # iterate from the BEST mark to the WORST: points must never increase (reverse=True: from the worst to the best,
    # points must never decrease - with interleaved option calls the two directions expose different leaks)
    rng = range(lo, hi + 1, step) if lower_better else range(hi, lo - 1, -step)
    reverse = bool(case.get('reverse'))
    if reverse:
        rng = rng[::-1]
    prev = None
    prevc = None
    n = 0
    perturb = case.get('perturb')
    for c in rng:
        if perturb and n % perturb == perturb - 1:
            # an unrelated call with a rarely used option between two compared marks must not disturb later answers
            if sysname == 'athlon':
                call(athlib.athlon_score, case['gender'], case['event'], centi_float(c), esaa=True)
                call(athlib.athlon_score, 'M', '800', 125.0, esaa=True)
                call(athlib.athlon_score, case['gender'], case['event'], centi_float(c), age=50)
            elif sysname == 'sportshall' and case.get('after_verbose'):
                # ... nor must a call that only asked for the working to be printed (a mark beyond either end of the table)
                with contextlib.redirect_stdout(io.StringIO()):
                    call(athlib.sportshall_score, case['event'], fmt2(max(ts_) + 100 + n % 7), verbose=True)
                    if n % 3 == 0:
                        call(athlib.sportshall_score, case['event'], fmt2(max(0, min(ts_) - 100 - n % 7)), verbose=True)
        r = f(c)
        n += 1
        if r[0] == 'exc':
            out.append(V('returns-points', [sysname, 'raises', r[1]], dict(case, lo=c, hi=c), r))
            prev = None
            continue
        p = r[1]
        if not isinstance(p, int) or isinstance(p, bool):
            out.append(V('integer', [sysname, 'type', type(p).__name__], dict(case, lo=c, hi=c), p))
            prev = None
            continue
        if p < lob or (hib is not None and p > hib):
            out.append(V('bounds', [sysname, 'bounds'], dict(case, lo=c, hi=c), p, [lob, hib]))
        if prev is not None:
            if (p > prev) if not reverse else (p < prev):
                a, b = sorted((prevc, c))
                out.append(V('monotone', [sysname, 'dip'] + (['with-interleaved-option-calls'] if perturb else []),
                             dict(case, lo=a, hi=b) if not case.get('after_verbose') else dict(case, focus=[a, b]),
                             {'first_mark': prevc / 100.0, 'first_points': prev, 'second_mark': c / 100.0, 'second_points': p,
                              'direction': 'worst-to-best' if reverse else 'best-to-worst'}))
            if p != prev and ctx is not None:
                ctx.nontrivial((ctxkey, c),
                               dict(case, lo=min(prevc, c), hi=max(prevc, c), points=[prev, p])
                               if len(ctx.nt_keys) % 5000 == 11 else None)
        prev, prevc = p, c
    if ctx is not None:
        ctx.count(max(n - 1, 0))
    return out


def examine_hand(case):
    """Tyrving: a hand-timed (1-decimal) text never scores more than the same figure with 2 decimals."""
    g, e, age = case['gender'], case['event'], case['age']
    out = []
    for c in range(case['lo'], case['hi'] + 1, 10):
        b = call(athlib.tyrving_score, g, age, e, fmt2(c))
        # every hand-timed spelling of the figure: s.t, s,t and from one minute up m:ss.t and the Norwegian m.ss.t
        hand = [('s.t', fmt1(c)), ('s,t', fmt1(c).replace('.', ','))]
        if c >= 6000:
            hand += [('m:ss.t', _mss1(c)), ('m.ss.t', _dot1(c)), ('m:ss,t', _mss1(c).replace('.', ','))]
        if c >= 360000:
            hand += [('h:mm:ss.t', _hms(c, 1)), ('h.mm.ss.t', _hms(c, 1).replace(':', '.'))]
        for name, text in hand:
            a = call(athlib.tyrving_score, g, age, e, text)
            if a[0] != 'ret' or b[0] != 'ret' or a[1] > b[1]:
                out.append(V('hand-timed-not-better', ['tyrving', 'hand-timed-scores-more'] + ([name] if name != 's.t' else []),
                             dict(case, lo=c, hi=c), {'hand_text': text, 'hand': a, 'electronic_text': fmt2(c), 'electronic': b}))
    return out


def examine_milli(case):
    """Tyrving race times written to the THOUSANDTH (text: s.xxx, and m:ss.xxx from one minute up): along consecutive
    thousandths a slower time never scores more."""
    g, e, age = case['gender'], case['event'], case['age']
    out = []
    prev = None
    for ms in range(case['lo'], case['hi'] + 1):
        sec, frac = divmod(ms, 1000)
        texts = ['%d.%03d' % (sec, frac)]
        if sec >= 60:
            texts.append('%d:%02d.%03d' % (sec // 60, sec % 60, frac))
        pts = []
        for t in texts:
            r = call(athlib.tyrving_score, g, age, e, t)
            if r[0] != 'ret' or not isinstance(r[1], int):
                out.append(V('returns-points', ['tyrving', 'raises' if r[0] == 'exc' else 'type', 'thousandths'], dict(case, lo=ms, hi=ms), r[:3]))
                return out
            pts.append(r[1])
        if len(set(pts)) > 1:
            out.append(V('monotone', ['tyrving', 'thousandths', 'spelling-differs'], dict(case, lo=ms, hi=ms), dict(zip(texts, pts))))
            return out
        if prev is not None and pts[0] > prev[1]:
            out.append(V('monotone', ['tyrving', 'thousandths', 'slower-scores-more'], dict(case, lo=prev[0], hi=ms),
                         {'faster': [prev[0], prev[1]], 'slower': [ms, pts[0]]}))
            return out
        prev = (ms, pts[0])
    return out


def examine_any(case):
    if case.get('kind') == 'hand':
        return examine_hand(case)
    if case.get('kind') == 'milli':
        return examine_milli(case)
    return examine(case)


# replay entry point
def _examine(case):
    return examine_any(case)


# ---------------------------------------------------------------------------------------------
# generators

def windows(lo, hi, points, nwin, width, rng, full):
    """Sub-ranges to sweep: everything when `full`, else windows around `points` and nwin random ones."""
    if full or hi - lo <= nwin * width:
        return [(lo, hi)]
    ws = []
    for p in points:
        ws.append((max(lo, p - 40), min(hi, p + 40)))
    for _ in range(nwin):
        a = rng.randrange(lo, hi - width)
        ws.append((a, a + width))
    return ws


def caller_spellings(key, rng, n=3):
    """Spellings a caller may use for a table key: padded, lower case, suffix / zero variants - kept when they
    normalise to the key (these systems normalise their event argument)."""
    from vlib import variants as _v
    cands = [' ' + key, key + ' ', '\t' + key + '\n', key.lower(), ' ' + key.lower() + ' ']
    for _ in range(6):
        kind, v = _v.variant(key, rng.randrange)
        cands.append(v)
    out = []
    for sp in cands:
        r = call(athlib.normalize_event_code, sp)
        if sp != key and r == ('ret', key) and sp not in out:
            out.append(sp)
    rng.shuffle(out)
    return out[:n]


FAR = 15000          # 150 m: far beyond anything jumped or thrown


def shard(ctx, payload):
    sysname = payload[0]
    thorough = ctx.tier == 'thorough'
    rng = random.Random(derive_seed(ctx.seed, 'C05', repr(payload)))

    def sweep(case, lo, hi, points=(), nwin=4, width=1500, full=False):
        for a, b in windows(lo, hi, points, nwin, width, rng, full or (thorough and not case.get('perturb'))):
            c = dict(case, lo=a, hi=b)
            if case.get('perturb'):
                # every perturbed window starts from the just-imported module state, so a leak shows in each of them
                from checks.c01 import reset_state
                reset_state()
            ctx.violations(examine(c, ctx))

    if sysname == 'athlon':
        ri = payload[1]
        row = athlon.rows()[ri]
        g, e, te, A, Z, X, kind, esaa = row
        from checks.c01 import mark_range
        hi = mark_range(row)
        base = {'system': 'athlon', 'gender': g, 'event': e, 'esaa': esaa}
        sweep(dict(base, age=None), 0, hi, full=True)
        if kind != 'timed' and hi < FAR:
            # far beyond anything jumped or thrown (where a "keyed in centimetres" style leniency would sit): still monotone
            ctx.violations(examine(dict(base, age=None, lo=hi, hi=FAR), ctx))
            ctx.label('far-range-field-sweeps')
        if not esaa:
            # the same sweep with option calls interleaved (state must not leak between calls)
            sweep(dict(base, age=None, perturb=37, reverse=True), 0, hi, nwin=4 if not thorough else 12, width=1500)
            sweep(dict(base, age=None, perturb=41), 0, hi, nwin=2 if not thorough else 8, width=1500)
        # caller spellings of the pair (lower / mixed case: the scoring key folds case itself): the same event, so still
        # monotone - and the same points as the table's own spelling at the window ends
        # (rows of the table itself: the veterans' short-hurdles aliases are matched as written, so a differently spelled
        # alias is simply a pair the table does not know)
        for sp in ([g.lower(), e.lower()], [g, e.lower()], [g.lower(), e[:1] + e[1:].lower()]) if te == e else ():
            if sp == [g, e]:
                continue
            sweep(dict(base, age=None, spelling=sp), 0, hi, nwin=2, width=800)
            age_ = 40 + rng.randrange(50)
            if athlon.exact_factor(g, e, min(5 * (age_ // 5), 110)) is not None:
                sweep(dict(base, age=age_, spelling=sp), 0, hi, nwin=1, width=600)
            for c in (hi // 3, hi // 2):
                a, b = call(athlib.athlon_score, sp[0], sp[1], centi_float(c)), call(athlib.athlon_score, g, e, centi_float(c))
                if a[:2] != b[:2]:
                    ctx.violation(V('returns-points', ['athlon', 'caller-spelling-differs'], dict(base, age=None, spelling=sp, lo=c, hi=c), a[:3], b[:3]))
            ctx.label('caller-spelling-sweeps')
        for band in range(35, 111, 5):
            f = athlon.exact_factor(g, e, band)
            if f is None:
                continue
            age = band + rng.randrange(5) if band < 110 else 110
            fhi = int(hi / float(f)) + 1
            z = int(float(Z) * (1 if kind != 'jump' else 0.01) * 100 / float(f))
            sweep(dict(base, age=age), 0, fhi, points=[z], nwin=6 if not thorough else 0, width=2500)
    elif sysname == 'hungarian':
        _, g, io, e, a, b, c0 = payload
        if not athlib.check_event_code(e):
            ctx.label('hungarian-key-not-a-code')
            return
        timed = b < 0 and c0 == 0
        base = {'system': 'hungarian', 'gender': g, 'inout': io, 'event': e, 'timed': timed}
        if timed:
            lo, hi = 1, int(-b * 100)
            # the last centi before the zero point may exceed -b by float conversion: stay inside
            sweep(base, lo, hi, points=[hi], nwin=8, width=2000)
        else:
            zero = math.sqrt(-c0 / a) - b if c0 < 0 else -b
            top = math.sqrt((1400 - c0) / a) - b
            lo, hi = int(zero * 100) + 1, int(top * 100)
            if e in ('DEC', 'HEP', 'PEN'):
                base['step'] = 100
                lo, hi = (lo // 100 + 1) * 100, (hi // 100) * 100
                ctx.violations(examine(dict(base, lo=lo, hi=hi), ctx))
            else:
                sweep(base, lo, hi, points=[lo], nwin=8, width=2000)
                if hi < FAR:
                    ctx.violations(examine(dict(base, lo=hi, hi=FAR, step=3), ctx))
                    ctx.label('far-range-field-sweeps')
    elif sysname == 'tyrving':
        _, g, ev = payload
        params = junior.tyrving_tables()[g][ev]
        if not athlib.check_event_code(ev):
            return
        kind, args = params
        for age in junior.tyrving_ages(params):
            if kind == 'race':
                dist, mult, yv = args
                b0 = int(junior._base(age, yv) * 100)
                per = float(mult) * (1.0 if dist <= 500 else 0.1)
                zero = b0 + int(1000 / per) + 1
                lo, hi, pts = max(1, b0 - int(600 / per)), zero + 60, [b0, zero]
            elif kind == 'jump':
                mult, yv = args
                b0 = int(junior._base(age, yv) * 100)
                zero = b0 - int(1000 / float(mult)) - 1
                lo, hi, pts = max(0, zero - 60), b0 + int(600 / float(mult)), [b0, zero]
            else:
                mults, yvs = args
                l0, l1, l2 = [junior._base(age, yv) for yv in yvs]
                b0, b1 = int(l0 * 100), int(l1 * 100)
                zero = b1 - int(float(l2) / float(mults[2])) - 1
                lo, hi, pts = max(0, zero - 60), b0 + int(600 / float(mults[0])), [b0, b1, zero]
            base = {'system': 'tyrving', 'gender': g, 'event': ev, 'age': age}
            sweep(dict(base, form='float'), lo, hi, points=pts, nwin=3, width=1200)
            if kind != 'race' and hi < FAR and age in (junior.tyrving_ages(params)[0], junior.tyrving_ages(params)[-1]):
                ctx.violations(examine(dict(base, form='float', lo=hi, hi=FAR, step=2), ctx))
                ctx.label('far-range-field-sweeps')
            if age == junior.tyrving_ages(params)[0]:
                for sp in caller_spellings(ev, rng, 2):
                    sweep(dict(base, form='float', spelling=sp), lo, hi, points=pts[:1], nwin=1, width=300, full=False)
                    ctx.label('caller-spelling-sweeps')
            if kind == 'race':
                a10, b10 = (lo // 10 + 1) * 10, (hi // 10) * 10
                ctx.violations(examine(dict(base, form='text1', step=10, lo=a10, hi=b10), ctx))
                if b10 >= 6000:
                    # from one minute up: the m:ss and Norwegian dotted spellings, electronic and hand-timed
                    for form in ('mss1', 'dot1', 'comma1'):
                        ctx.violations(examine(dict(base, form=form, step=10, lo=max(a10, 5900), hi=b10), ctx))
                    for form in ('mss2', 'dot2'):
                        w = min(b10 - max(a10, 5900), 1500)
                        st = max(a10, 5900) + rng.randrange(max(1, b10 - max(a10, 5900) - w + 1))
                        ctx.violations(examine(dict(base, form=form, lo=st, hi=st + w), ctx))
                    ctx.label('tyrving-minute-forms')
                if b10 > 360000:
                    # from one hour up (the long walks): h:mm:ss spellings, across the hour marks
                    h0 = max(a10, 354000)
                    for form in ('hms1', 'hdot1'):
                        ctx.violations(examine(dict(base, form=form, step=10, lo=h0, hi=b10), ctx))
                    for k in range(1, b10 // 360000 + 1):
                        ctx.violations(examine(dict(base, form='hms2', lo=max(a10, k * 360000 - 300), hi=min(b10, k * 360000 + 300)), ctx))
                    ctx.label('tyrving-hour-forms')
                # times to the thousandth across two whole-second marks near the table's base performance
                for s0 in (b0 // 100, b0 // 100 + 7):
                    mc = {'kind': 'milli', 'gender': g, 'event': ev, 'age': age, 'lo': s0 * 1000 - 25, 'hi': s0 * 1000 + 25}
                    ctx.count(51)
                    ctx.violations(examine_milli(mc))
                ctx.label('tyrving-thousandths')
                hc = {'kind': 'hand', 'gender': g, 'event': ev, 'age': age, 'lo': a10, 'hi': b10}
                ctx.count((b10 - a10) // 10 + 1)
                ctx.violations(examine_hand(hc))
    elif sysname == 'qkids':
        _, ct, ev = payload
        row = junior.qkids_tables()[ct][ev]
        r0, r1, r2 = [float(x) for x in row]
        a, b = sorted((r1, r2))
        lo, hi = max(0, int((a - 12 * r0) * 100) - 50), int((b + 12 * r0) * 100) + 50
        ctx.violations(examine({'system': 'qkids', 'comp': ct, 'event': ev, 'lo': lo, 'hi': hi}, ctx))
        far = FAR if not athlib.PAT_RUN.match(ev) else 2 * hi
        ctx.violations(examine({'system': 'qkids', 'comp': ct, 'event': ev, 'lo': hi, 'hi': far}, ctx))
        ctx.label('far-range-field-sweeps')
        for sp in caller_spellings(ev, rng, 3):
            ctx.violations(examine({'system': 'qkids', 'comp': ct, 'event': ev, 'spelling': sp, 'lo': lo, 'hi': hi}, ctx))
            ctx.label('caller-spelling-sweeps')
    elif sysname == 'sportshall':
        _, ev = payload
        info = junior.sportshall_tables()[ev]
        ts = [int(t * 100) for p, t in info['thresholds']]
        inc = info['inc'] if isinstance(info['inc'], Fraction) else Fraction(1)
        span = int(max(inc * 100 * 40, 400))
        lo, hi = max(0, min(ts) - span), max(ts) + span
        ctx.violations(examine({'system': 'sportshall', 'event': ev, 'lo': lo, 'hi': hi}, ctx))
        far = FAR if ev in junior.SH_HIGH else 2 * hi
        ctx.violations(examine({'system': 'sportshall', 'event': ev, 'lo': hi, 'hi': far}, ctx))
        ctx.label('far-range-field-sweeps')
        # the documented `verbose` option only prints the working: after calls with it - below, inside, at the top of and
        # beyond the table - the same sweep finds the same order
        ctx.violations(examine({'system': 'sportshall', 'event': ev, 'lo': lo, 'hi': hi, 'after_verbose': far, 'perturb': 1}, ctx))
        ctx.label('sweeps-after-verbose-calls')
    elif sysname == 'bulgarian':
        _, key = payload
        t = junior.bulgarian_tables()[key]
        a, b = sorted((t['min'], t['max']))
        ctx.violations(examine({'system': 'bulgarian', 'table': key, 'lo': max(0, a - 150), 'hi': b + 150}, ctx))
        # the mark written as text the way people write it (no more decimals than needed; clock form from one minute up)
        forms = ['text2', 'short'] + (['mss-short'] if key[4:] in junior.BG_TIMED and b + 150 >= 6000 else [])
        for form in forms:
            r0 = call(mod('bulgarian_score').score, 'U16', key[3], key[4:], fmt2((a + b) // 2))
            if r0[0] == 'ret':       # the system takes text marks for this table: the same sweep in that spelling
                ctx.violations(examine({'system': 'bulgarian', 'table': key, 'form': form, 'lo': max(0, a - 50), 'hi': b + 50}, ctx))
                ctx.label('bulgarian-text-forms')
        far = FAR if key[4:] not in junior.BG_TIMED else 2 * (b + 150)
        ctx.violations(examine({'system': 'bulgarian', 'table': key, 'lo': b + 150, 'hi': far}, ctx))
        ctx.label('far-range-field-sweeps')


def run(ctx):
    payloads = [('athlon', i) for i in range(len(athlon.rows()))]
    for g, io, e, a, b, c in mod('hungarian_score').FACTORS:
        payloads.append(('hungarian', g, io, e, a, b, c))
    for g, tab in sorted(junior.tyrving_tables().items()):
        for ev in tab:
            payloads.append(('tyrving', g, ev))
    for ct, tab in sorted(junior.qkids_tables().items()):
        for ev in tab:
            payloads.append(('qkids', ct, ev))
    for ev in junior.sportshall_tables():
        payloads.append(('sportshall', ev))
    for key in junior.bulgarian_tables():
        payloads.append(('bulgarian', key))
    run_shards(ctx, 'checks.c05', 'shard', payloads, disjoint=True)
    ctx.extra['scoring_contexts'] = len(payloads)


# the runner calls examine(case) for replays: dispatch on the case shape
_sweep_examine = examine


def examine(case, ctx=None):   # noqa: F811
    if case.get('kind') == 'hand':
        return examine_hand(case)
    if case.get('kind') == 'milli':
        return examine_milli(case)
    return _sweep_examine(case, ctx)
