"""C11 — table-based junior scoring reproduces the published tables exactly."""
import hashlib
import json
import random
from fractions import Fraction

import athlib
from vlib import junior
from vlib.exact import centi_float
from vlib.harness import V, derive_seed, run_shards
from vlib.lib import call, mod

PROPERTY = 'C11'
AMBIENT_PASS = True        # the same search once more under unusual ambient settings (vlib.run.AMBIENT_SETTINGS)
RULE = ('per system (Tyrving, QuadKids, Sportshall, Bulgarian U16) every (table, event, gender, age) x centi-marks '
        'from well below to well above the tabulated range (all thresholds/breakpoints +-5 centi, the whole range at a '
        'tier-dependent stride; complete for QuadKids, Sportshall and Bulgarian in both tiers), each mark in every '
        'documented carrier (float, int, 2-decimal text, m:ss.xx, Tyrving hand-timed 1-decimal/integer text); oracle = the '
        'table / linear formula in Fraction arithmetic; plus table ordering, redundancy and reachability clauses. '
        'non-trivial = a mark within 0.02 of a threshold/breakpoint, beyond either end of the table, or whose 100*float '
        'is not integer-valued; distinct by (system, table, centi-mark)')
RULE = RULE + '; Sportshall events also in lower / Title case and with verbose=True; Tyrving h:mm:ss carriers from one hour up; Bulgarian one-decimal and m:ss carriers'
ASSUMPTIONS = ['tables are read from the library\'s data structures; a pinned digest of each table (checks/c11_pins.json) '
               'stands for "the published table" of the reference tree',
               'Sportshall increments the sheet gives in units the loader does not parse ("1 no.", "1m") have no defined '
               'beyond-table value: only ">= the 80-point value" is demanded there']


def fmt2(c):
    return '%d.%02d' % (c // 100, c % 100)


def mss(c):
    """m:ss.xx text of c centiseconds (c >= 6000)."""
    m, r = divmod(c, 6000)
    return '%d:%02d.%02d' % (m, r // 100, r % 100)


def hmss(c):
    """h:mm:ss.xx text of c centiseconds (c >= 360000)."""
    h, r = divmod(c, 360000)
    m, r = divmod(r, 6000)
    return '%d:%02d:%02d.%02d' % (h, m, r // 100, r % 100)


def hazard(c):
    return 100 * centi_float(c) != c


# ---------------------------------------------------------------------------------------------
# examiners (one per system); case dicts are JSON-able

def _cmp(out, clause, sigbase, case, carrier, r, want):
    if r[0] == 'exc':
        out.append(V(clause, sigbase + ['raises', r[1], carrier], dict(case, carrier=carrier), r, want))
        return
    got = r[1]
    if isinstance(want, tuple):          # ('at-least', n)
        if not isinstance(got, int) or got < want[1]:
            out.append(V(clause, sigbase + ['below-floor'], dict(case, carrier=carrier), got, want))
        return
    if not isinstance(got, int) or isinstance(got, bool):
        out.append(V(clause, sigbase + ['type', type(got).__name__], dict(case, carrier=carrier), got, want))
    elif got != want:
        d = got - want
        out.append(V(clause, sigbase + ['points', 'off-by-%+d' % d if abs(d) <= 1 else 'off'],
                     dict(case, carrier=carrier), got, want))


def examine_tyrving(case):
    g, ev, age, c = case['gender'], case['event'], case['age'], case['centi']
    params = junior.tyrving_tables().get(g, {}).get(ev)
    if params is None:
        return []
    out = []
    v = Fraction(c, 100)
    timed = params[0] == 'race'
    want = junior.tyrving_exact(params, age, v, manual=False)
    if want is None:
        return []
    sig = ['tyrving', params[0]]
    carriers = [('float', centi_float(c)), ('text2', fmt2(c))]
    if c % 100 == 0:
        carriers.append(('int', c // 100))
    if timed and c >= 6000:
        carriers.append(('m:ss.xx', mss(c)))
        carriers.append(('m.ss.xx', mss(c).replace(':', '.')))
    if timed and c >= 360000:
        carriers.append(('h:mm:ss.xx', hmss(c)))
        carriers.append(('h.mm.ss.xx', hmss(c).replace(':', '.')))
    sp = case.get('spelling', ev)           # the event as the caller spells it (normalises to the key)
    for name, perf in carriers:
        _cmp(out, 'equals-table', sig + (['caller-spelling'] if sp != ev else []), case, name,
             call(athlib.tyrving_score, g, age, sp, perf), want)
    if case.get('comma'):
        # decimal comma: accepted by all branches; a running time without a '.' counts as hand-timed
        # by the library's own is_hand_timing convention (Python and JS alike)
        cw = junior.tyrving_exact(params, age, v, manual=timed)
        _cmp(out, 'equals-table', sig + ['comma'], case, 'comma',
             call(athlib.tyrving_score, g, age, ev, fmt2(c).replace('.', ',')), cw)
    # hand-timed convention: a 1-decimal / integer text of a running event gets the increment
    if c % 10 == 0:
        hw = junior.tyrving_exact(params, age, v, manual=timed)
        texts = [('text1', '%d.%d' % (c // 100, (c % 100) // 10))]
        if c % 100 == 0:
            texts.append(('text0', '%d' % (c // 100)))
        if timed and c >= 6000:
            # from one minute up the same convention in the m:ss.t and Norwegian m.ss.t spellings (and m:ss without decimals)
            t1 = mss(c)[:-1]
            texts += [('m:ss.t', t1), ('m.ss.t', t1.replace(':', '.')), ('m:ss,t', t1.replace('.', ','))]
            if c % 100 == 0:
                texts.append(('m:ss', t1[:-2]))
            if c >= 360000:
                h1 = hmss(c)[:-1]
                texts += [('h:mm:ss.t', h1), ('h.mm.ss.t', h1.replace(':', '.'))]
        for name, perf in texts:
            _cmp(out, 'hand-timed-convention' if timed else 'equals-table', sig + ['hand'], case, name,
                 call(athlib.tyrving_score, g, age, ev, perf), hw)
    return out


def examine_qkids(case):
    ct, ev, c = case['comp'], case['event'], case['centi']
    row = junior.qkids_tables().get(ct, {}).get(ev)
    if row is None:
        return []
    timed = bool(athlib.PAT_RUN.match(ev))
    want = junior.qkids_exact(row, Fraction(c, 100), timed)
    out = []
    carriers = [('float', centi_float(c)), ('text2', fmt2(c))]
    if c % 100 == 0:
        carriers.append(('int', c // 100))
        carriers.append(('text0', '%d' % (c // 100)))
    if c % 10 == 0:
        carriers.append(('text1', '%d.%d' % (c // 100, (c % 100) // 10)))
    if timed and c >= 6000:
        carriers.append(('m:ss.xx', mss(c)))
    sp = case.get('spelling', ev)
    for name, perf in carriers:
        _cmp(out, 'equals-formula', ['qkids'] + (['caller-spelling'] if sp != ev else []), case, name,
             call(athlib.qkids_score, ct, sp, perf), want)
    return out


_sh = None


def examine_sportshall(case):
    global _sh
    if _sh is None:
        _sh = junior.sportshall_tables()
    ev, c = case['event'], case['centi']
    info = _sh.get(ev)
    if info is None:
        return []
    want = junior.sportshall_exact(info, Fraction(c, 100))
    out = []
    carriers = [('text2', fmt2(c)), ('text3', fmt2(c) + '0')]
    if c % 10 == 0:
        carriers.append(('text1', '%d.%d' % (c // 100, (c % 100) // 10)))
    if c % 100 == 0:
        carriers.append(('text0', '%d' % (c // 100)))
    # the mark as a number (the scoring functions of the other systems take numbers; so does this one)
    carriers.append(('float', centi_float(c)))
    if c % 100 == 0:
        carriers.append(('int', c // 100))
    region = 'beyond' if isinstance(want, tuple) or want > info['thresholds'][-1][0] else 'table'
    for name, perf in carriers:
        _cmp(out, 'equals-table', ['sportshall', ev if region == 'table' and ev == 'SHJ' else region], case, name,
             call(athlib.sportshall_score, ev, perf), want)
    # the event as callers spell it (the function folds letter case itself) and the documented `verbose` option: the same
    # event, the same points
    import contextlib, io
    sps = [x for x in (ev.lower(), ev.title(), ev[:1] + ev[1:].lower()) if x != ev]
    for sp in dict.fromkeys(sps):
        _cmp(out, 'equals-table', ['sportshall', 'caller-spelling'], dict(case, spelling=sp), 'text2',
             call(athlib.sportshall_score, sp, fmt2(c)), want)
    with contextlib.redirect_stdout(io.StringIO()):
        rv = call(athlib.sportshall_score, ev, fmt2(c), verbose=True)
    _cmp(out, 'equals-table', ['sportshall', 'verbose-option'], case, 'text2', rv, want)
    return out


def examine_bulgarian(case):
    key, ev, g, c = case['table'], case['event'], case['gender'], case['centi']
    table = junior.bulgarian_tables().get(key)
    if table is None:
        return []
    want = junior.bulgarian_exact(table, ev, c)
    score = mod('bulgarian_score').score
    out = []
    if want == 'missing-row':
        return [V('table-complete', ['bulgarian', 'missing-row'], case, None, 'a row for every centi inside min..max')]
    carriers = [('float', centi_float(c))]
    if c % 100 == 0:
        carriers.append(('int', c // 100))
    if ev in junior.BG_TIMED:
        carriers.append(('text2', fmt2(c)))
        if c % 10 == 0:
            carriers.append(('text1', '%d.%d' % (c // 100, (c % 100) // 10)))      # one decimal is the same figure here
        if c >= 6000:
            carriers.append(('m:ss.xx', mss(c)))
            if c % 10 == 0:
                carriers.append(('m:ss.x', mss(c)[:-1]))
            if c % 100 == 0:
                carriers.append(('m:ss', mss(c)[:-3]))
    for name, perf in carriers:
        _cmp(out, 'equals-table', ['bulgarian'], case, name, call(score, 'U16', g, ev, perf), want)
    return out


def examine_structure(case):
    """Ordering / redundancy / reachability of one table row."""
    sysname = case['system']
    out = []
    if sysname == 'tyrving':
        g, ev = case['gender'], case['event']
        params = junior.tyrving_tables()[g][ev]
        ok = call(athlib.check_event_code, ev)
        if ok[0] != 'ret' or not ok[1]:
            out.append(V('keys-are-codes', ['structure', 'tyrving', 'key-not-a-code'], case, ev, 'a valid event code'))
            return out
        n = call(athlib.normalize_event_code, ev)
        ages = junior.tyrving_ages(params)
        if not ages:
            out.append(V('table-ordered', ['structure', 'tyrving', 'no-age'], case))
            return out
        # reachable under the normalised code, equal to the oracle at the base performance
        kind, args = params
        age = ages[0]
        base = junior._base(age, args[2] if kind == 'race' else args[1] if kind == 'jump' else args[1][0])
        c = int(base * 100)
        want = junior.tyrving_exact(params, age, Fraction(c, 100))
        r = call(athlib.tyrving_score, g, age, n[1] if n[0] == 'ret' else ev, fmt2(c))
        if r != ('ret', want):
            out.append(V('reachable', ['structure', 'tyrving', 'unreachable'], case, r, want))
        # base performances never get easier with age
        for a0, a1 in zip(ages, ages[1:]):
            for yv in ([args[2]] if kind == 'race' else [args[1]] if kind == 'jump' else list(args[1][:2])):
                b0, b1 = junior._base(a0, yv), junior._base(a1, yv)
                if (b1 > b0) if kind == 'race' else (b1 < b0):
                    out.append(V('table-ordered', ['structure', 'tyrving', 'age-order'], dict(case, ages=[a0, a1]),
                                 [float(b0), float(b1)]))
    elif sysname == 'qkids':
        ct, ev = case['comp'], case['event']
        row = junior.qkids_tables()[ct][ev]
        ok = call(athlib.check_event_code, ev)
        if ok[0] != 'ret' or not ok[1]:
            out.append(V('keys-are-codes', ['structure', 'qkids', 'key-not-a-code'], case, ev))
            return out
        r0, r1 = Fraction(str(row[0])), Fraction(str(row[1]))
        if r0 <= 0:
            out.append(V('table-ordered', ['structure', 'qkids', 'step-not-positive'], case, row))
            return out
        timed = bool(athlib.PAT_RUN.match(ev))
        n = call(athlib.normalize_event_code, ev)
        for pts in (10, 55, 100):       # reachable under the normalised code, equal to the formula
            v = r1 + (-1 if timed else 1) * (pts - 10) * r0
            c = int(v * 100)
            want = junior.qkids_exact(row, Fraction(c, 100), timed)
            r = call(athlib.qkids_score, ct, n[1] if n[0] == 'ret' else ev, fmt2(c))
            if r != ('ret', want):
                out.append(V('reachable', ['structure', 'qkids', 'unreachable'], dict(case, centi=c), r, want))
    elif sysname == 'sportshall':
        ev = case['event']
        info = junior.sportshall_tables()[ev]
        thr = info['thresholds']
        for (p0, t0), (p1, t1) in zip(thr, thr[1:]):
            if (t1 < t0) if info['high'] else (t1 > t0):
                out.append(V('table-ordered', ['structure', 'sportshall', 'order'], dict(case, points=[p0, p1]),
                             [float(t0), float(t1)]))
        ok = call(athlib.check_event_code, ev)
        if ok[0] != 'ret' or not ok[1]:
            out.append(V('keys-are-codes', ['structure', 'sportshall', 'key-not-a-code'], case, ev))
        # every tabulated threshold is reachable and gives at least its points
        for p, t in thr:
            c = int(t * 100)
            want = junior.sportshall_exact(info, Fraction(c, 100))
            r = call(athlib.sportshall_score, ev, fmt2(c))
            if r != ('ret', want):
                out.append(V('reachable', ['structure', 'sportshall', 'threshold', ev if ev == 'SHJ' else 'any'],
                             dict(case, points=p, centi=c), r, want))
    elif sysname == 'bulgarian':
        key, ev = case['table'], case['event']
        t = junior.bulgarian_tables()[key]
        lo, hi = t['min'], t['max']
        step = -1 if ev in junior.BG_TIMED else 1
        prev = None
        for c in range(lo, hi + step, step):      # from worst to best
            p = t.get(c)
            if p is None:
                out.append(V('table-complete', ['structure', 'bulgarian', 'missing-row'], dict(case, centi=c)))
                continue
            if not isinstance(p, int) or not 0 <= p <= 150:
                out.append(V('table-ordered', ['structure', 'bulgarian', 'bounds'], dict(case, centi=c), p))
            if prev is not None and p < prev:
                out.append(V('table-ordered', ['structure', 'bulgarian', 'dip'], dict(case, centi=c), p, '>= %d' % prev))
            prev = p if prev is None else max(prev, p)
        ok = call(athlib.check_event_code, ev)
        if ok[0] != 'ret' or not ok[1]:
            out.append(V('keys-are-codes', ['structure', 'bulgarian', 'key-not-a-code'], case, ev))
    elif sysname == 'pin':
        pins = load_pins()
        name = case['table']
        if name in pins:
            d = table_digest(name)
            if d != pins[name]:
                out.append(V('published-table', ['pinned-table-digest', name], case, d, pins[name]))
    return out


EXAMINERS = {'tyrving': examine_tyrving, 'qkids': examine_qkids, 'sportshall': examine_sportshall,
             'bulgarian': examine_bulgarian, 'structure': examine_structure,
             'sequence': lambda case: examine_sequence(case)}


def examine(case):
    return EXAMINERS[case['kind']](case)


# ---------------------------------------------------------------------------------------------
# pinned digests

def table_digest(name):
    data = {'tyrving': junior.tyrving_tables, 'qkids': junior.qkids_tables,
            'sportshall': lambda: mod('sportshall_score').RAWDATA,
            'bulgarian': junior.bulgarian_tables}[name]()
    def canon(x):
        if isinstance(x, dict):
            return ['dict'] + sorted(([repr(k), canon(v)] for k, v in x.items()), key=lambda kv: kv[0])
        if isinstance(x, (list, tuple)):
            return [canon(i) for i in x]
        if isinstance(x, (int, float)) and not isinstance(x, bool):
            return repr(float(x))          # 8 and 8.0 are the same table entry
        return repr(x)
    return hashlib.sha256(json.dumps(canon(data)).encode()).hexdigest()


def load_pins():
    import os
    p = os.path.join(os.path.dirname(os.path.abspath(__file__)), 'c11_pins.json')
    if not os.path.exists(p):
        return {}
    with open(p, encoding='utf-8') as f:
        return json.load(f)


# ---------------------------------------------------------------------------------------------
# generators

def marks_with_windows(lo, hi, points, budget, rng):
    """All centi in windows +-5 around `points`, plus the range lo..hi at a stride fitting `budget`."""
    s = set()
    for p in points:
        for d in range(-5, 6):
            if p + d >= 0:
                s.add(p + d)
    lo = max(lo, 0)
    n = hi - lo + 1
    stride = max(1, -(-n // budget))
    off = rng.randrange(stride)
    s.update(range(lo + off, hi + 1, stride))
    if stride > 1:   # float-hazard marks are where fuzz constants matter: add a sample of them
        for _ in range(min(budget // 4, 2000)):
            c = rng.randrange(lo, hi + 1)
            if hazard(c):
                s.add(c)
    return sorted(s), stride


def near(c, points, tol=2):
    return any(abs(c - p) <= tol for p in points)


def shard(ctx, payload):
    sysname = payload[0]
    rng = random.Random(derive_seed(ctx.seed, 'C11', repr(payload)))
    thorough = ctx.tier == 'thorough'

    def run_case(case, bps, lo_end, hi_end):
        ctx.count()
        vs = examine(case)
        ctx.violations(vs)
        c = case['centi']
        if near(c, bps) or c < lo_end or c > hi_end or hazard(c):
            k = (sysname,) + tuple(payload[1:]) + (case.get('age'), c)
            ctx.nontrivial(k, case if (len(ctx.nt_keys) % 20000 == 3) else None)

    if sysname == 'tyrving':
        _, g, ev = payload
        params = junior.tyrving_tables()[g][ev]
        if not athlib.check_event_code(ev):
            return
        kind, args = params
        budget = 1000000 if thorough else 8000
        for age in junior.tyrving_ages(params):
            if kind == 'race':
                dist, mult, yv = args
                base = int(junior._base(age, yv) * 100)
                per = float(mult) * (1.0 if dist <= 500 else 0.1)      # points per centi
                zero = base + int(1000 / per) + 1
                lo, hi = max(1, base - int(600 / per)), zero + 60
                bps = [base, zero]
            elif kind == 'jump':
                mult, yv = args
                base = int(junior._base(age, yv) * 100)
                zero = base - int(1000 / float(mult)) - 1
                lo, hi = max(0, zero - 60), base + int(600 / float(mult))
                bps = [base, zero]
            else:
                mults, yvs = args
                l0, l1, l2 = [junior._base(age, yv) for yv in yvs]
                b0, b1 = int(l0 * 100), int(l1 * 100)
                zero = b1 - int(float(l2) / float(mults[2])) - 1
                lo, hi = max(0, zero - 60), b0 + int(600 / float(mults[0]))
                bps = [b0, b1, zero]
            marks, stride = marks_with_windows(lo, hi, bps, budget, rng)
            ctx.label('tyrving-stride-%d' % stride if stride < 4 else 'tyrving-stride-4plus')
            for c in marks:
                case = {'kind': 'tyrving', 'gender': g, 'event': ev, 'age': age, 'centi': c}
                run_case(case, bps, min(bps), max(bps))
    elif sysname == 'qkids':
        _, ct, ev = payload
        row = junior.qkids_tables()[ct][ev]
        r0, r1, r2 = [float(x) for x in row]
        a, b = sorted((r1, r2))
        lo, hi = int((a - 8 * r0) * 100) - 50, int((b + 8 * r0) * 100) + 50
        bps = [int(round(r1 * 100)), int(round(r2 * 100))]
        for c in range(max(lo, 0), hi + 1):
            run_case({'kind': 'qkids', 'comp': ct, 'event': ev, 'centi': c}, bps, min(bps), max(bps))
        ctx.label('qkids-complete-range')
    elif sysname == 'sportshall':
        _, ev = payload
        info = junior.sportshall_tables()[ev]
        ts = [int(t * 100) for p, t in info['thresholds']]
        inc = info['inc'] if isinstance(info['inc'], Fraction) else Fraction(1)
        span = int(max(inc * 100 * 25, 300))
        lo, hi = max(0, min(ts) - 300), max(ts) + span
        if not info['high']:
            lo, hi = max(0, min(ts) - span), max(ts) + 300
        for c in range(lo, hi + 1):
            run_case({'kind': 'sportshall', 'event': ev, 'centi': c}, ts, min(ts), max(ts))
        ctx.label('sportshall-complete-range')
    elif sysname == 'bulgarian':
        _, key = payload
        t = junior.bulgarian_tables()[key]
        g, ev = key[3], key[4:]
        a, b = sorted((t['min'], t['max']))
        for c in range(max(0, a - 120), b + 121):
            run_case({'kind': 'bulgarian', 'table': key, 'gender': g, 'event': ev, 'centi': c}, [a, b], a, b)
        ctx.label('bulgarian-complete-range')


_snaps = None


def reset_state():
    """Module state of the four scoring modules back to what it was right after import."""
    global _snaps
    from vlib.statesnap import Snap
    if _snaps is None:
        _snaps = [Snap(mod(n)) for n in ('tyrving_score', 'qkids_score', 'sportshall_score', 'bulgarian_score')]
    for sn in _snaps:
        sn.restore()
    global _sh
    _sh = None


reset_state()       # snapshot at import


def examine_sequence(case):
    reset_state()
    out = []
    for step in case['steps']:
        out = EXAMINERS[step['kind']](step)
    for v in out:
        v['sig'] = v['sig'] + ['interleaved']
        v['case'] = case
    return out


def shard_mixed(ctx, payload):
    """History independence: marks of all four systems, tables, ages and carriers interleaved in one process in seeded
    segments of 30 calls from the just-imported module state; every answer is still judged by the exact oracle."""
    n = payload
    rng = random.Random(derive_seed(ctx.seed, 'C11-mixed', ctx.shard))
    ty = [(g, ev) for g, tab in sorted(junior.tyrving_tables().items()) for ev in tab if athlib.check_event_code(ev)]
    qk = [(ct, ev) for ct, tab in sorted(junior.qkids_tables().items()) for ev in tab]
    sh = list(junior.sportshall_tables())
    bg = list(junior.bulgarian_tables())
    done = 0
    while done < n:
        reset_state()
        seg = []
        for _ in range(30):
            k = rng.randrange(4)
            if k == 0:
                g, ev = rng.choice(ty)
                params = junior.tyrving_tables()[g][ev]
                age = rng.choice(junior.tyrving_ages(params))
                kind, args = params
                base = junior._base(age, args[2] if kind == 'race' else args[1] if kind == 'jump' else args[1][0])
                c = max(1, int(base * 100) + rng.randrange(-400, 400))
                step = {'kind': 'tyrving', 'gender': g, 'event': ev, 'age': age, 'centi': c}
            elif k == 1:
                ct, ev = rng.choice(qk)
                row = junior.qkids_tables()[ct][ev]
                a, b = sorted((float(row[1]), float(row[2])))
                step = {'kind': 'qkids', 'comp': ct, 'event': ev, 'centi': rng.randrange(max(0, int(a * 100) - 200), int(b * 100) + 200)}
            elif k == 2:
                ev = rng.choice(sh)
                ts = [int(t * 100) for p, t in junior.sportshall_tables()[ev]['thresholds']]
                step = {'kind': 'sportshall', 'event': ev, 'centi': rng.randrange(max(0, min(ts) - 100), max(ts) + 300)}
            else:
                key = rng.choice(bg)
                t = junior.bulgarian_tables()[key]
                a, b = sorted((t['min'], t['max']))
                step = {'kind': 'bulgarian', 'table': key, 'gender': key[3], 'event': key[4:], 'centi': rng.randrange(max(0, a - 50), b + 50)}
            seg.append(step)
            ctx.count()
            done += 1
            vs = EXAMINERS[step['kind']](step)
            if vs:
                for v in vs:
                    v['sig'] = v['sig'] + ['interleaved']
                    v['case'] = {'kind': 'sequence', 'steps': list(seg)}
                ctx.violations(vs)
                break
    ctx.label('interleaved-single-process-calls', done)


def shrink(bucket):
    case = bucket['case']
    if case.get('kind') != 'sequence':
        return None
    sig = bucket['sig']
    steps = list(case['steps'])

    def fails(st):
        return any(v['sig'] == sig for v in examine_sequence({'kind': 'sequence', 'steps': st}))
    if not fails(steps):
        return None
    i = 0
    while i < len(steps) - 1:
        t = steps[:i] + steps[i + 1:]
        if fails(t):
            steps = t
        else:
            i += 1
    v = [v for v in examine_sequence({'kind': 'sequence', 'steps': steps}) if v['sig'] == sig][0]
    return {'case': v['case'], 'observed': v['observed']}


def run(ctx):
    run_shards(ctx, 'checks.c11', 'shard_mixed', [6000 if ctx.tier == 'thorough' else 1200] * 16, disjoint=False)
    payloads = []
    structure = []
    for g, tab in sorted(junior.tyrving_tables().items()):
        for ev in tab:
            payloads.append(('tyrving', g, ev))
            structure.append({'kind': 'structure', 'system': 'tyrving', 'gender': g, 'event': ev})
    for ct, tab in sorted(junior.qkids_tables().items()):
        for ev in tab:
            payloads.append(('qkids', ct, ev))
            structure.append({'kind': 'structure', 'system': 'qkids', 'comp': ct, 'event': ev})
    for ev in junior.sportshall_tables():
        payloads.append(('sportshall', ev))
        structure.append({'kind': 'structure', 'system': 'sportshall', 'event': ev})
    for key in junior.bulgarian_tables():
        payloads.append(('bulgarian', key))
        structure.append({'kind': 'structure', 'system': 'bulgarian', 'table': key, 'event': key[4:]})
    for name in ('tyrving', 'qkids', 'sportshall', 'bulgarian'):
        structure.append({'kind': 'structure', 'system': 'pin', 'table': name})
    for case in structure:
        ctx.count()
        ctx.label('structure-' + case['system'])
        ctx.violations(examine(case))
    # comma decimals (Tyrving handles commas): a small dedicated sweep
    for g, ev, age in (('F', '100', 15), ('M', '1500', 14), ('M', 'HJ', 12), ('F', 'JT400', 11)):
        for c in (1324, 1300, 26850, 150, 161, 3000, 2550):
            ctx.count()
            ctx.label('comma-carrier')
            ctx.violations(examine({'kind': 'tyrving', 'gender': g, 'event': ev, 'age': age, 'centi': c, 'comma': True}))
    # caller spellings of the keys (padded, lower case, suffix / zero variants that normalise to the key): same points
    from checks.c05 import caller_spellings
    rng = random.Random(derive_seed(ctx.seed, 'C11-spellings'))
    for g, tab in sorted(junior.tyrving_tables().items()):
        for ev, params in tab.items():
            if not athlib.check_event_code(ev):
                continue
            age = junior.tyrving_ages(params)[0]
            kind, args = params
            base = int(junior._base(age, args[2] if kind == 'race' else args[1] if kind == 'jump' else args[1][0]) * 100)
            for sp in caller_spellings(ev, rng, 3):
                for c in (base - 37, base, base + 211):
                    ctx.count()
                    ctx.label('caller-spelling')
                    ctx.violations(examine({'kind': 'tyrving', 'gender': g, 'event': ev, 'age': age, 'centi': max(1, c), 'spelling': sp}))
    for ct, tab in sorted(junior.qkids_tables().items()):
        for ev, row in tab.items():
            a, b = sorted((float(row[1]), float(row[2])))
            for sp in caller_spellings(ev, rng, 3):
                for c in (int(a * 100) - 150, int((a + b) * 50), int(b * 100) + 150):
                    ctx.count()
                    ctx.label('caller-spelling')
                    ctx.violations(examine({'kind': 'qkids', 'comp': ct, 'event': ev, 'centi': max(0, c), 'spelling': sp}))
    run_shards(ctx, 'checks.c11', 'shard', payloads, disjoint=True)
    ctx.extra['tables'] = len(payloads)
