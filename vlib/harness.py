"""Common machinery: context, violations, known findings, evidence, sharding.

Every check is a module ``checks/cNN.py`` exposing

    PROPERTY = "Cnn"
    RULE = "<how cases are generated and what is non-trivial>"
    def run(ctx): ...                  # drive generators, call ctx.violation(...)
    def examine(case) -> [Violation]   # plain re-execution of one JSON-able case

``examine`` never uses Hypothesis; it is what ``--replay`` and the known-finding /
regress replays call.  Cases are JSON-able dicts with a ``kind`` key.
"""
import hashlib
import json
import multiprocessing
import os
import sys
import time
import traceback
from collections import Counter

VERIF = os.path.dirname(os.path.dirname(os.path.abspath(__file__)))
REPO = os.environ.get('VERIF_REPO', '/repo')
OUT = os.environ.get('VERIF_OUT', VERIF)     # evidence/ and replays/ land here (mutant runs redirect it)


class HarnessError(Exception):
    """Raised for problems of the machinery itself (exit code 2)."""


def derive_seed(seed, *parts):
    h = hashlib.sha256(repr((int(seed),) + tuple(parts)).encode()).digest()
    return int.from_bytes(h[:8], 'big')


def sig_hash(sig):
    return hashlib.sha1(json.dumps(list(sig), sort_keys=True).encode()).hexdigest()[:12]


def jsonable(x):
    """Best-effort conversion of a case/observation to JSON-able data."""
    if isinstance(x, (str, int, bool)) or x is None:
        return x
    if isinstance(x, float):
        if x != x or x in (float('inf'), float('-inf')):
            return repr(x)
        return x
    if isinstance(x, (list, tuple)):
        return [jsonable(i) for i in x]
    if isinstance(x, (set, frozenset)):
        return sorted((jsonable(i) for i in x), key=repr)
    if isinstance(x, dict):
        return {str(k): jsonable(v) for k, v in x.items()}
    return repr(x)


def V(clause, sig, case, observed=None, expected=None):
    """Build a violation record.  ``sig`` identifies the root-cause class."""
    return {'clause': clause, 'sig': [str(s) for s in sig], 'case': jsonable(case),
            'observed': jsonable(observed), 'expected': jsonable(expected)}


def case_size(case):
    try:
        return len(json.dumps(case, sort_keys=True, default=repr))
    except Exception:
        return 10 ** 9


class Ctx(object):
    """Collects what a run covered.  Mergeable across worker processes."""

    MAX_NT_KEYS = 3000000

    def __init__(self, prop, tier, seed, shard=None):
        self.prop = prop
        self.tier = tier
        self.seed = int(seed)
        self.shard = shard
        self.evaluations = 0
        self.nt_keys = set()      # 64-bit hashes of distinct non-trivial case keys
        self.nt_disjoint = 0      # counts from shards whose domains are disjoint by construction
        self.classes = Counter()
        self.samples_first = []
        self.samples_res = []
        self._res_seen = 0
        self.buckets = {}         # sighash -> dict
        self.excluded_known = Counter()
        self.notes = []
        self.extra = {}
        self.exhaustive = None
        self.inconclusive = []
        self.k_samples = 6

    # ---- counting -----------------------------------------------------------------
    def count(self, n=1):
        self.evaluations += n

    def label(self, name, n=1):
        self.classes[name] += n

    def nontrivial(self, key, sample=None):
        """Register a non-trivial case by its (hashable/reprable) key."""
        h = hash(key) if isinstance(key, (int, str, tuple)) else hash(repr(key))
        before = len(self.nt_keys)
        if before < self.MAX_NT_KEYS:
            self.nt_keys.add(h)
        if sample is not None and len(self.nt_keys) > before:
            self.sample(sample)

    def sample(self, s):
        if len(self.samples_first) < self.k_samples:
            self.samples_first.append(jsonable(s))
            return
        # deterministic reservoir: keep items whose running index hashes low
        self._res_seen += 1
        n = self._res_seen
        if len(self.samples_res) < self.k_samples:
            self.samples_res.append(jsonable(s))
        else:
            j = derive_seed(self.seed, 'res', self.shard, n) % n
            if j < self.k_samples:
                self.samples_res[j] = jsonable(s)

    def note(self, text):
        if text not in self.notes:
            self.notes.append(text)

    # ---- violations ---------------------------------------------------------------
    def violation(self, v):
        h = sig_hash(v['sig'])
        b = self.buckets.get(h)
        if b is None:
            self.buckets[h] = dict(v, count=1, size=case_size(v['case']))
        else:
            b['count'] += 1
            s = case_size(v['case'])
            if s < b['size']:
                keep = b['count']
                b.update(v)
                b['size'] = s
                b['count'] = keep

    def violations(self, vs):
        for v in vs or ():
            self.violation(v)
        return bool(vs)

    # ---- merging ------------------------------------------------------------------
    def export(self):
        return {
            'evaluations': self.evaluations, 'nt_keys': self.nt_keys,
            'nt_disjoint': self.nt_disjoint,
            'classes': dict(self.classes), 'samples_first': self.samples_first,
            'samples_res': self.samples_res, 'buckets': self.buckets,
            'notes': self.notes, 'extra': self.extra, 'inconclusive': self.inconclusive,
        }

    def merge(self, part, disjoint=False):
        self.evaluations += part['evaluations']
        if disjoint:
            self.nt_disjoint += len(part['nt_keys']) + part['nt_disjoint']
        else:
            self.nt_disjoint += part['nt_disjoint']
            room = self.MAX_NT_KEYS - len(self.nt_keys)
            if room > 0:
                for k in part['nt_keys']:
                    self.nt_keys.add(k)
        self.classes.update(part['classes'])
        for s in part['samples_first']:
            if len(self.samples_first) < self.k_samples:
                self.samples_first.append(s)
            elif len(self.samples_res) < self.k_samples:
                self.samples_res.append(s)
        for s in part['samples_res']:
            if len(self.samples_res) < self.k_samples:
                self.samples_res.append(s)
        for h, b in part['buckets'].items():
            mine = self.buckets.get(h)
            if mine is None:
                self.buckets[h] = dict(b)
            else:
                c = mine['count'] + b['count']
                if b['size'] < mine['size']:
                    mine.update(b)
                mine['count'] = c
        for n in part['notes']:
            self.note(n)
        for k, v in part['extra'].items():
            if isinstance(v, (int, float)) and isinstance(self.extra.get(k, 0), (int, float)):
                self.extra[k] = self.extra.get(k, 0) + v
            elif isinstance(v, list):
                self.extra.setdefault(k, [])
                for i in v:
                    if i not in self.extra[k] and len(self.extra[k]) < 200:
                        self.extra[k].append(i)
            elif isinstance(v, dict):
                d = self.extra.setdefault(k, {})
                for kk, vv in v.items():
                    if isinstance(vv, (int, float)):
                        d[kk] = d.get(kk, 0) + vv
                    else:
                        d[kk] = vv
            else:
                self.extra[k] = v
        self.inconclusive.extend(part['inconclusive'])

    @property
    def distinct_nontrivial(self):
        return len(self.nt_keys) + self.nt_disjoint


# ------------------------------------------------------------------------------------
# sharded execution

def _worker(args):
    modname, funcname, prop, tier, seed, shard_index, payload = args
    try:
        import importlib
        mod = importlib.import_module(modname)
        ctx = Ctx(prop, tier, seed, shard=shard_index)
        getattr(mod, funcname)(ctx, payload)
        return ('ok', ctx.export())
    except BaseException:
        return ('err', traceback.format_exc())


def run_shards(ctx, modname, funcname, payloads, disjoint=False, procs=None):
    """Run ``mod.func(subctx, payload)`` for every payload in a process pool; merge in order."""
    payloads = list(payloads)
    if not payloads:
        return
    procs = procs or min(int(os.environ.get('VERIF_PROCS', '16')), len(payloads))
    args = [(modname, funcname, ctx.prop, ctx.tier, ctx.seed, i, p) for i, p in enumerate(payloads)]
    if procs <= 1:
        results = [_worker(a) for a in args]
    else:
        # a worker that dies (killed for memory, a crash in a C extension) must end the run as a harness error, not hang
        # it: multiprocessing.Pool silently replaces the worker and waits for ever for the lost result
        from concurrent.futures import ProcessPoolExecutor
        from concurrent.futures.process import BrokenProcessPool
        mp = multiprocessing.get_context('fork')
        try:
            with ProcessPoolExecutor(max_workers=procs, mp_context=mp) as pool:
                results = list(pool.map(_worker, args, chunksize=1))
        except BrokenProcessPool:
            raise HarnessError('a worker process died (killed? out of memory?) - no verdict')
    for status, part in results:
        if status != 'ok':
            raise HarnessError('worker failed:\n' + part)
        ctx.merge(part, disjoint=disjoint)


# ------------------------------------------------------------------------------------
# known findings

def load_known(prop):
    path = os.path.join(VERIF, 'known_findings.json')
    if not os.path.exists(path):
        return [], []
    with open(path) as f:
        data = json.load(f)
    entries = [e for e in data.get('findings', []) if e.get('property') == prop]
    return ([e for e in entries if e.get('status') == 'open'],
            [e for e in entries if e.get('status') == 'fixed'])


def regress_files(prop):
    d = os.path.join(VERIF, 'replays', 'regress')
    if not os.path.isdir(d):
        return []
    return sorted(os.path.join(d, f) for f in os.listdir(d)
                  if f.startswith(prop + '-') and f.endswith('.json'))


# ------------------------------------------------------------------------------------
# evidence

def write_evidence(ctx, rule, wall_s, nviol, assumptions=None, level='exploration'):
    samples = ctx.samples_first + ctx.samples_res
    cov = {
        'evaluations': int(ctx.evaluations),
        'distinct_nontrivial': int(ctx.distinct_nontrivial),
        'rule': rule,
        'samples': samples,
        'classes': dict(sorted(ctx.classes.items())),
        'excluded_known': dict(sorted(ctx.excluded_known.items())),
        'exhaustive': bool(ctx.exhaustive) if ctx.exhaustive is not None else False,
        'inconclusive': ctx.inconclusive,
        'notes': ctx.notes,
    }
    for k, v in ctx.extra.items():
        if k not in cov:
            cov[k] = jsonable(v)
    ev = {
        'property_id': ctx.prop, 'tier': ctx.tier, 'seed': ctx.seed, 'level': level,
        'coverage': cov, 'assumptions': assumptions or [], 'wall_s': round(wall_s, 2),
        'violations': int(nviol),
    }
    d = os.path.join(OUT, 'evidence')
    os.makedirs(d, exist_ok=True)
    tmp = os.path.join(d, '.%s.json.tmp' % ctx.prop)
    with open(tmp, 'w') as f:
        json.dump(ev, f, indent=1, sort_keys=True, default=repr)
        f.write('\n')
    os.replace(tmp, os.path.join(d, '%s.json' % ctx.prop))
    return ev


class Budget(object):
    """Wall-clock budget that only ever truncates a search."""

    def __init__(self, seconds):
        self.t0 = time.time()
        self.seconds = seconds

    def left(self):
        return self.seconds - (time.time() - self.t0)

    def spent(self):
        return self.left() <= 0
