"""Access to the code under test."""
import os
import sys
import traceback
import linecache

from .harness import REPO

import athlib  # noqa: E402  (PYTHONPATH puts /repo first; vlib.run asserts it)

ATHLIB_DIR = os.path.realpath(os.path.join(REPO, 'athlib'))


def mod(name):
    """Sub-module by dotted name (package re-exports shadow e.g. athlib.athlon_score)."""
    full = 'athlib.' + name
    if full not in sys.modules:
        __import__(full)
    return sys.modules[full]


def innermost_athlib_frame(tb):
    """(function, stripped source line) of the innermost frame inside athlib."""
    found = None
    for fs in traceback.extract_tb(tb):
        try:
            if os.path.realpath(fs.filename).startswith(ATHLIB_DIR):
                found = (fs.name, (fs.line or '').strip())
        except Exception:
            pass
    return found or ('<outside athlib>', '')


# The AMBIENT pass (vlib.run starts it as a child process: python -O, another time zone, VERIF_AMBIENT=1): every library call
# made through call() runs under settings of the surrounding program that are normally left at their defaults - the decimal
# module's working precision and rounding mode, warnings turned into errors - and must give the same answers all the same.
AMBIENT = os.environ.get('VERIF_AMBIENT') == '1'
_AMB_CTX = None
_AMB_N = 0


def _ambient_context(key='', strict=False):
    """One of two unusual decimal contexts, chosen by the call itself (a pure function of its arguments: the same call always
    runs under the same settings, so replays and shrinking stay deterministic)."""
    import decimal
    import zlib
    global _AMB_CTX
    if _AMB_CTX is None:
        _AMB_CTX = [decimal.Context(prec=6, rounding=decimal.ROUND_FLOOR), decimal.Context(prec=3, rounding=decimal.ROUND_UP)]
    c = _AMB_CTX[zlib.crc32(key.encode('utf-8', 'replace')) % 2]
    if strict:
        # for callers that hand over Decimals only: accidental mixing of floats and Decimals is trapped as well
        c = c.copy()
        c.traps[decimal.FloatOperation] = True
    return c


class ambient(object):
    """Context manager form of the ambient settings (used by the drivers that call the library directly)."""

    def __init__(self, key='', strict=False):
        self.key, self.strict = key, strict

    def __enter__(self):
        if AMBIENT:
            import decimal
            self.old = decimal.getcontext()
            decimal.setcontext(_ambient_context(self.key, self.strict).copy())
        return self

    def __exit__(self, *a):
        if AMBIENT:
            import decimal
            decimal.setcontext(self.old)
        return False


def call(f, *a, **k):
    """Run f; return ('ret', value) or ('exc', ExceptionTypeName, message, (func, line))."""
    if AMBIENT:
        import decimal
        import warnings
        old = decimal.getcontext()
        try:
            key = '%s%r%r' % (getattr(f, '__name__', ''), a, sorted(k.items()))
        except Exception:
            key = getattr(f, '__name__', '')
        decimal.setcontext(_ambient_context(key).copy())
        err, sys.stderr = sys.stderr, None          # a process without a usable stderr (services, embedded interpreters)
        try:
            with warnings.catch_warnings():
                warnings.simplefilter('error')
                try:
                    return ('ret', f(*a, **k))
                except Exception as e:
                    return ('exc', type(e).__name__, str(e)[:200], innermost_athlib_frame(e.__traceback__))
        finally:
            sys.stderr = err
            decimal.setcontext(old)
    try:
        return ('ret', f(*a, **k))
    except Exception as e:
        return ('exc', type(e).__name__, str(e)[:200], innermost_athlib_frame(e.__traceback__))


class OddStr(str):
    """A str subclass whose str() / repr() / format() are NOT its text (what a `class Ev(str, Enum)` member is): code that takes
    a string must use the string, not its str()."""

    def __str__(self):
        return 'OddStr.<%d chars>' % len(self)

    def __repr__(self):
        return '<OddStr>'

    def __format__(self, spec):
        return 'OddStr.<%d chars>' % len(self)


def is_exc(r, *names):
    return r[0] == 'exc' and (not names or r[1] in names)
