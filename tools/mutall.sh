#!/bin/sh
cd "$(dirname "$0")/.." || exit 2
./setup.sh >/dev/null 2>&1
tools/mut.py 2>&1 | grep -v " caught " | tail -60
