#!/venv/bin/python
"""Regenerate MANIFEST.json from the table below (checks that exist under checks/ are claimed)."""
import json, os
V = os.path.dirname(os.path.dirname(os.path.abspath(__file__)))

CHECKS = {
 'C01': dict(
    technique='exhaustive grid sweep + seeded sampling against an exact-arithmetic oracle (differential)',
    text='Generated-input search: the complete 0.01 grid of all 52 rows for age=None and, for every age 1..110, all '
         'constructed rounding-hazard marks plus a seeded sample, compared with the formula evaluated in exact rational / '
         '60-digit decimal arithmetic from a pinned copy of the official coefficients and the JSON factor table. '
         'Finds any disagreement on the explored grid; does not prove the unexplored (row, age, mark) points.',
    note='Trusts: Python Fraction/Decimal; libm pow to 1e-9 relative away from integer results; the pinned coefficient copy; '
         'the factor JSON as data. Events without a factor row are only checked for crash-freedom under an age >= 35.',
    ref='DESIGN.md §4 C01'),
 'C05': dict(
    technique='metamorphic adjacent-pair sweep over generated runs of consecutive marks (monotonicity, type, bounds)',
    text='Runs of consecutive 0.01 marks are generated for every table/event/gender/age of all six scoring systems (complete ranges '
         'for the small systems and for combined events without age; seeded windows plus every threshold elsewhere in the quick tier, '
         'complete ranges in the thorough tier); every adjacent pair must be monotone, integer and within the system bounds.',
    note='No reference values are needed (metamorphic). Hungarian range limited as the property states. Explores, does not prove, '
         'pairs outside the swept windows in the quick tier.',
    ref='DESIGN.md §4 C05'),
 'C11': dict(
    technique='grid sweep in every documented input form against exact Fraction re-evaluation of the tables (differential) + table-structure enumeration',
    text='Every (system, table, event, gender, age) x centi-marks below, inside and beyond the tabulated range, in each documented carrier '
         '(float, int, text, m:ss.xx, Tyrving hand-timed text), compared with the table / linear formula evaluated in Fraction arithmetic; '
         'every table row is checked for ordering and reachability; table data are pinned by digest to the reference tree.',
    note='Trusts the tables of the reference tree as "published" (digest pins in checks/c11_pins.json; re-pin on an intentional table update). '
         'Sportshall increments in unparseable units only get a lower-bound oracle.',
    ref='DESIGN.md §4 C11'),
 'C02': dict(
    technique='model-based testing of call histories: bounded-exhaustive BFS over all call sequences + Hypothesis rule-based state machine and card-driven plays, against an independent three-valued reference model',
    text='Every call of the alphabet (legal or not) is applied at every distinct state reachable within the depth bound (n=1..4 athletes) and '
         'along long generated plays with injected illegal calls; the implementation must accept exactly what the model of the rules accepts, '
         'refuse with RuleViolation leaving the full observable snapshot unchanged, record the cards and move the stage as the model does, never backwards.',
    note='Trusts the reference model (vlib/hjmodel.py, written from the property text). Unspecified regions (pass in a jump-off, jump-off bar moved early, '
         'nobody clears anything) truncate a history and are counted. Depth-bounded; longer histories only by generated plays.',
    ref='DESIGN.md §4 C02'),
 'C03': dict(
    technique='generated complete competitions (BFS terminal states, card-driven plays, exhaustive card spaces in thorough) judged by a validity predicate computed from the result cards alone',
    text='Decided competitions are produced by the BFS, by implementation-driven plays from drawn cards with rule-conforming jump-off continuations '
         '(raised / repeated / lowered bar), and in the thorough tier by enumerating the 2x3 and 3x2 card spaces with all 2-height jump-off '
         'continuations; placings, bests and stage are judged by a predicate over the cards (countback, standard ranking, ties, jump-off outcome).',
    note='The predicate is independent of the implementation\'s ranking code and of the C02 model. Competitions without any regular clearance are outside the property.',
    ref='DESIGN.md §4 C03'),
 'C08': dict(
    technique='round-trip and metamorphic testing over generated competition prefixes (log replay, card export/import, per-height interleavings)',
    text='For prefixes sampled from the BFS and from generated plays: from_actions must rebuild an indistinguishable competition, to_matrix -> from_matrix '
         'must reproduce state and standings modulo pass marks, and every interleaving of a height\'s trials that keeps each athlete\'s order '
         '(all when <= 120, else 30 drawn) must be accepted call by call and end in the same cards, state and places; the trial list must spell the cards.',
    note='Interleavings vary one height at a time. Prefixes stay inside specified territory.',
    ref='DESIGN.md §4 C08'),
 'C04': dict(
    technique='bounded-exhaustive enumeration over a class-representative alphabet + grammar-directed generation from the regex syntax trees; membership oracle',
    text='All strings up to length 4 (quick) / 5 (thorough) over one representative per cell of the code-point partition induced by the '
         'patterns\' own character classes, plus strings generated from the syntax tree of every family and composite pattern (own generator '
         'and Hypothesis from_regex), their near misses and trailing-newline variants; composite <=> union of parts, kinds disjoint, '
         'first-match classification order-independent.',
    note='Language equality is explored to a length bound and by sampling, not proved for unbounded length (a symbolic decision procedure '
         'is outside this technique family). The alphabet partition is recomputed from the patterns on every run.',
    ref='DESIGN.md §4 C04'),
 'C06': dict(
    technique='bounded-exhaustive enumeration of digit strings + boundary-directed grid and residue-float generation + Hypothesis text; exact Fraction oracle and format/parse round trip',
    text='round_up_str_num on all strings of the stated shape x prec 0..5 against the exact ceiling; format_seconds_as_time on millisecond grids around '
         'minute/hour boundaries up to 100 h and on floats with arithmetic residue, judged by shape, fields < 60 and the round trip '
         'd - 1e-5 <= parse_hms(out) < d + 10^-prec in exact arithmetic; parse_hms on structured and arbitrary text (exact sexagesimal value or ValueError).',
    note='Durations are sampled around boundaries (all 6000 minute boundaries only in the thorough tier). atheris engine on parse/format in the thorough tier when installed.',
    ref='DESIGN.md §4 C06'),
 'C13': dict(
    technique='boundary-directed generation of (birth, meeting) date pairs, complete cross product in the thorough tier; oracle = rule text re-implemented with a hand-written completed-years function',
    text='Birth dates within 3 days of every anniversary of each cut-off for a seeded set of meeting dates (quick) and the complete 1461 x ~40 000 cross '
         'product for TF and XC (thorough); expected group from the rule text; structural clauses (defined, ISO text == date, monotone in birth date, options).',
    note='TF rule-text equality only for meetings 1 Jan - 30 Sep (as the property states); under-11 split follows the library\'s documented extension.',
    ref='DESIGN.md §4 C13'),
 'C14': dict(
    technique='complete enumeration of tables x spellings x integer/half/quarter ages against independently read JSON cells; metamorphic spelling and monotonicity relations',
    text='Every row of the 2015, 2023 and combined-events tables at every covered integer and half-integer age up to 20 years past the last column, all '
         'gender spellings and event cases; factor == cell / between neighbours / last column, identical results across spellings, grade == standard ratio, '
         'grade(best) == 1.0 where factor is 1, better => higher.',
    note='Finite domain for the factor clauses (complete in both tiers); grades sampled on a performance grid.',
    ref='DESIGN.md §4 C14'),
 'C15': dict(
    technique='dense distance sweep (every metre to 12 km, strided to 400 km, three spellings) with bracket oracle computed independently from the JSON km column; adjacent-pair order relation',
    text='For every generated non-tabulated distance code the factor must lie within the factors of the nearest tabulated rows below and above (found from the '
         'table data, not by the library\'s scan) and the open best within theirs, increasing with distance; beyond the ends: nearest end row, no exception.',
    note='The distance a code denotes is computed by the check. 1e-4 tolerance (table resolution).',
    ref='DESIGN.md §4 C15'),
 'C07': dict(
    technique='grammar-directed generation from the regex syntax tree + structural spelling variants; algebraic-law oracle (closure, idempotence, confluence)',
    text='Codes generated from PAT_EVENT_CODE\'s syntax tree (every alternative covered), their case/space/suffix/trailing-zero variants, near '
         'misses and arbitrary text; the normal form must be accepted, whitespace-free, idempotent, in the same families/kind, and identical '
         'for all variants; non-codes must raise ValueError.',
    note='Samples the (infinite) language; digit runs bounded at 12. "Same families" is checked as no family lost + same measurement kind.',
    ref='DESIGN.md §4 C07'),
 'C10': dict(
    technique='grammar-directed generation of codes, code pairs and lists; totality + ordering-law + stable-sort-permutation oracle',
    text='Codes from the syntax tree, pairs within families and lists with missing/None/duplicate disciplines; every function must return, '
         'keys have the documented shape and class order, order by distance / conventional field order where unambiguous, text key '
         'order-isomorphic to tuple key, sorter is a stable sort permutation, relay distance = legs x leg.',
    note='Only unambiguous comparisons are asserted. event_code_to_kind is required to be total on its four families only.',
    ref='DESIGN.md §4 C10'),
 'C12': dict(
    technique='grammar-based generation of (event, text, gender, prec) + output-validity predicate and re-validation (idempotence) oracle; ddmin shrinking',
    text='Events from the code grammar and common/loose names x plausible and implausible entry texts; the only exception allowed is the '
         'caller\'s class; returned texts must be well-formed for the family, imply a plausible speed / length / points, and re-validate to '
         'themselves. Four idempotence findings inherent to the format heuristics are listed in known_findings.json.',
    note='Speed uses the library\'s get_distance (decided by C10). Open findings are matched by exact signature (clause + family + cause '
         'computed from the result text); anything else is reported.',
    ref='DESIGN.md §4 C12'),
 'C16': dict(
    technique='schedule enumeration under a harness-owned deterministic scheduler (sys.settrace line-level pre-emption): all single pre-emptions, exhaustive/drawn double pre-emptions, Hypothesis-drawn schedules; differential against the single-threaded result',
    text='25 scenarios of 2-3 concurrent calls on shared module state, cold and warm; real threads are serialised by a token and pre-empted only at athlib '
         'source lines chosen by the generator; every thread\'s outcome must equal the same call run alone from the same initial state.',
    note='Line granularity inside athlib only, at most two forced pre-emptions (three drawn); library locks are wrapped in cooperative proxies so a blocked '
         'acquire hands the token on (a 50 ms watchdog is the fallback). No wall-clock correctness signal.',
    ref='DESIGN.md §4 C16'),
 'C17': dict(
    technique='complete enumeration of the finite core + Hypothesis-generated labels and codes; validity predicate and monotonicity oracle',
    text='5 throws x genders x every label calc_uka_age_group produces (obtained by calling it) and the table labels, enumerated completely; '
         'arbitrary labels and non-throw codes by Hypothesis; all keys of all scoring/grading tables. Built codes must be valid, normalised '
         'throws codes carrying the table weight; masters weights non-increasing through V120.',
    note='Exhaustive for the finite core; arbitrary labels are sampled.',
    ref='DESIGN.md §4 C17'),
 'C18': dict(
    technique='cross-language differential testing over generated input grids through a persistent node bridge (same value or both refuse) + structural comparison of the duplicated tables',
    text='The C06/C11 grids (digit strings x precision, boundary and residue durations, structured and junk h:m:s texts, every Tyrving and QuadKids table x centi-marks '
         'in all carriers incl. hand-timed and comma forms, table keys and their spelling variants) are evaluated by the Python functions and by the JS functions '
         'loaded directly from js/src under node; results must be equal or both must refuse; the JS tables are dumped and compared with the Python dicts.',
    note='Only the function pairs named in the property. The JS sources are loaded with one regex rewrite of their import syntax (no Babel offline). JS NaN/undefined is a value.',
    ref='DESIGN.md §4 C18'),
 'C19': dict(
    technique='history testing (all short call sequences + Hypothesis rule-based state machine overflowing the caches) against a reference table computed in real fresh interpreter processes',
    text='Every call of the universe (schema_valid x validators x expect_failure over all schema files; valid_against_schema over all samples x schemas x '
         'expect_failure) is first executed alone in its own new interpreter with sockets blocked; then all length-1/2 histories over a reduced set, all '
         '(x, y, x\') triples, eviction histories and state-machine histories of up to ~60 calls must reproduce those outcomes call by call; a sample of '
         'histories is also run in real fresh processes.',
    note='Inside a history "cleared caches" stands for a fresh process (validated by the real-process sample). Universe limited to the bundled files.',
    ref='DESIGN.md §4 C19'),
 'C09': dict(
    technique='exhaustive enumeration of the finite domain with a two-sided round-trip oracle',
    text='All 48 table rows x all integer targets -10..1500 (72 528 cases) are enumerated in both tiers; the needed mark must score '
         '>= target and the next-worse grid mark must score < target, using the library score (itself checked by C01) as forward function.',
    note='Trusts athlon_score as the forward function (decided by C01). Exhaustive for the stated finite domain.',
    ref='DESIGN.md §4 C09'),
}

PENDING = {}

checks = []
na = []
for pid in sorted(set(CHECKS) | set(PENDING)):
    if pid in CHECKS and os.path.exists(os.path.join(V, 'checks', pid.lower() + '.py')):
        c = CHECKS[pid]
        checks.append({
            'property_id': pid,
            'quick_cmd': './check %s --tier quick' % pid,
            'thorough_cmd': './check %s --tier thorough' % pid,
            'evidence_file': 'evidence/%s.json' % pid,
            'replay_cmd_template': './check %s --replay {path}' % pid,
            'engine': 'vlib',
            'level_claimed': {'category': 'exploration', 'text': c['text'], 'design_ref': c['ref']},
            'level_note': c['note'],
            'technique': c['technique'],
        })
    else:
        na.append({'property_id': pid, 'reason': PENDING.get(pid) or CHECKS[pid].get('na', 'check file missing')})

manifest = {
    'version': 1,
    'setup_cmd': './setup.sh',
    'hooks': {
        'guard': 'ATHLIB_VERIF',
        'enable': 'no source hooks are needed: athlib is pure Python and is imported from /repo\'s working tree '
                  '(PYTHONPATH=/repo) by every check; ./check exports ATHLIB_VERIF=1 for completeness',
        'baseline_off_cmd': 'cd /repo && /venv/bin/python -m pytest -ra -q -p no:cacheprovider --timeout=900 '
                            '--continue-on-collection-errors',
        'source_commits': [],
        'add_only': True,
    },
    'engines': [
        {'name': 'vlib', 'path': 'vlib/', 'serves_properties': [c['property_id'] for c in checks],
         'kind_free_text': 'property-based testing: Hypothesis strategies / stateful machines, exhaustive enumeration of finite '
                           'domains over a 16-process pool, explicit oracles (exact arithmetic, reference models, differential, '
                           'metamorphic); collect-classify-shrink driver with known-finding signatures'},
    ],
    'checks': checks,
    'not_applicable': na,
    'notes': 'Run ./setup.sh once. Every check: ./check <ID> --tier quick|thorough [--replay FILE]; exit 0 held / 1 VIOLATION / '
             '2 harness error. known_findings.json lists open findings (printed as KNOWN-FINDING) and fixed ones (regress replays).',
}
with open(os.path.join(V, 'MANIFEST.json'), 'w') as f:
    json.dump(manifest, f, indent=1)
    f.write('\n')
print('claimed:', [c['property_id'] for c in checks])
