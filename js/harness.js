// JSON-lines bridge: loads the library's JS sources directly from <repo>/js/src (no Babel/Mocha offline),
// rewriting only the module syntax they use (import {..} from './x' -> require), and serves calls.
//   request : [{"f": "roundUpStrNum", "a": ["1.2345", 2]}, ...]   (one JSON array per line)
//   response: [{"r": value} | {"e": "message"}, ...]
'use strict';
const fs = require('fs');
const path = require('path');
const readline = require('readline');

const SRC = path.join(process.argv[2] || '/repo', 'js', 'src');
const cache = {};

function load(file) {
  if (!fs.existsSync(file) && fs.existsSync(file + '.js')) file += '.js';
  if (cache[file]) return cache[file].exports;
  let src = fs.readFileSync(file, 'utf8');
  src = src.replace(/import\s*\{([^}]*)\}\s*from\s*'([^']+)';?/g,
    (m, names, f) => `const {${names}} = __require('${f}');`);
  const module = { exports: {} };
  cache[file] = module;
  const fn = new Function('module', 'exports', '__require', 'require', src);
  fn(module, module.exports, (f) => load(path.resolve(path.dirname(file), f)), require);
  return module.exports;
}

const utils = load(path.join(SRC, 'utils.js'));
const patterns = load(path.join(SRC, 'patterns.js'));
const tyrving = load(path.join(SRC, 'tyrving_score.js'));
const qkids = load(path.join(SRC, 'qkids_score.js'));
const F = Object.assign({}, utils, tyrving, qkids);

function enc(v) {
  if (typeof v === 'number' && !isFinite(v)) return { $: String(v) };
  if (v === undefined) return { $: 'undefined' };
  return v;
}

// table dumps for the structural comparison
F.__tyrvingTables = () => {
  // the tables are module-private: recover them from the source text
  const src = fs.readFileSync(path.join(SRC, 'tyrving_score.js'), 'utf8');
  const a = src.indexOf('var _tyrvingTables = '), b = src.indexOf('// end tyrving tables');
  const body = src.slice(a + 'var _tyrvingTables = '.length, b > 0 ? b : undefined);
  return new Function('return ' + body.slice(0, body.lastIndexOf('}') + 1))();
};
F.__qkidsTables = () => {
  const src = fs.readFileSync(path.join(SRC, 'qkids_score.js'), 'utf8');
  const a = src.indexOf('var _qkidsTables = ');
  const rest = src.slice(a + 'var _qkidsTables = '.length);
  // the literal ends at the first line that starts a statement after it
  let depth = 0, i = 0;
  for (; i < rest.length; i++) {
    if (rest[i] === '{') depth++;
    else if (rest[i] === '}') { depth--; if (depth === 0) { i++; break; } }
  }
  const tables = new Function('return ' + rest.slice(0, i))();
  // statements that patch the tables after the literal (aliases)
  const m = rest.slice(i).match(/_qkidsTables\[[^\n]*\n/g) || [];
  const _qkidsTables = tables;
  m.forEach((stmt) => { try { new Function('_qkidsTables', stmt)(_qkidsTables); } catch (e) { /* ignore */ } });
  return _qkidsTables;
};
F.__patternSource = (name) => patterns[name] ? patterns[name].source : null;

const rl = readline.createInterface({ input: process.stdin, terminal: false });
rl.on('line', (line) => {
  let reqs;
  try { reqs = JSON.parse(line); } catch (e) { process.stdout.write(JSON.stringify([{ e: 'bad request' }]) + '\n'); return; }
  const out = reqs.map((q) => {
    try {
      const f = F[q.f];
      if (typeof f !== 'function') return { e: 'no such function ' + q.f };
      return { r: enc(f.apply(null, q.a)) };
    } catch (e) {
      return { e: String(e && e.message ? e.message : e).slice(0, 200) };
    }
  });
  process.stdout.write(JSON.stringify(out) + '\n');
});
