"""Thin driver around athlib.HighJumpCompetition: apply calls, take observable snapshots."""
import copy
from decimal import Decimal

import athlib
from athlib import HighJumpCompetition, RuleViolation

from . import lib as _lib


ADD_VARIANTS = {
    'DNS': {'order': 'DNS'}, 'DQ': {'order': 'DQ'}, 'order': {'order': 7}, 'none': {'order': None},
    'full': {'first_name': 'Late', 'last_name': 'Entry', 'team': 'XYZ', 'gender': 'F', 'category': 'U20', 'order': 3},
    # keywords of the JavaScript port's start-list entries (the Python constructor takes any keyword): a guest / non-scorer
    'guest': {'non_scorer': True, 'team': 'GUEST'},
}


# one play in a few records its trials through the card-letter entry point bib_trial(bib, 'o' / 'x' / 'r') instead of
# cleared / failed / retired (set by the play drivers, recorded in the case as 'via_trial', restored by replay)
VIA_TRIAL = False
LETTER = {'cleared': 'o', 'failed': 'x', 'retired': 'r'}


def new_comp():
    return HighJumpCompetition()


def apply(c, call, float_heights=False):
    """Apply call to competition c.  Returns ('ok',) or ('refused', exception type name, message).  With
    float_heights the bar height (an exact Decimal in the harness) is handed over as the nearest float."""
    op, arg = call
    if _lib.AMBIENT:
        with _lib.ambient('%s%r' % (op, arg), strict=not float_heights):
            return _apply(c, op, arg, float_heights)
    return _apply(c, op, arg, float_heights)


def _apply(c, op, arg, float_heights):
    try:
        if op == 'add':
            c.add_jumper(bib=arg)
        elif op.startswith('add:'):
            # the same call with the optional keywords a start list carries (no rule mentions them)
            c.add_jumper(bib=arg, **ADD_VARIANTS[op[4:]])
        elif op == 'bar':
            c.set_bar_height(float(arg) if float_heights else arg)
        elif op.startswith('badtrial'):
            # not a card letter (or a whole card cell, which is no single trial): refused like any other forbidden call
            c.bib_trial(arg, op.split(':', 1)[1] if ':' in op else 'z')
        elif VIA_TRIAL and op in LETTER:
            c.bib_trial(arg, LETTER[op])
        else:
            getattr(c, op)(arg)
        return ('ok',)
    except Exception as e:          # classified by the caller: only RuleViolation is a legal refusal
        return ('refused', type(e).__name__, str(e)[:120])


def strip(card):
    c = list(card)
    while c and c[-1] == '':
        c.pop()
    return tuple(c)


def _g(o, name, default=None):
    return getattr(o, name, default)


def snapshot(c, full=True):
    """Observable state.  full=True adds what refusal-atomicity must preserve exactly (log, ranking order, public
    flags, to_matrix).  Attributes are read defensively so a renamed internal is not a harness error."""
    js = sorted(c.jumpers, key=lambda j: str(j.bib))
    per = tuple((j.bib, tuple(j.attempts_by_height) if full else strip(j.attempts_by_height), str(j.highest_cleared),
                 j.place, _g(j, 'eliminated'), _g(j, 'dismissed'), _g(j, 'round_lim'), _g(j, 'consecutive_failures'))
                for j in js)
    base = (c.state, tuple(str(h) for h in c.heights), str(c.bar_height), per)
    if not full:
        return base
    try:
        mat = repr(c.to_matrix([]))
    except Exception as e:
        mat = 'to_matrix raised %s' % type(e).__name__
    return base + (tuple(repr(a) for a in c.actions), tuple(j.bib for j in c.ranked_jumpers),
                   tuple(_g(j, 'highest_cleared_index') for j in js), mat, tuple(c.trials) == tuple(c.trials))


def _simple(v):
    if isinstance(v, (str, int, float, bool, Decimal, type(None))):
        return v
    if isinstance(v, (list, tuple)):
        return tuple(_simple(x) for x in v)
    if isinstance(v, dict):
        return tuple(sorted((repr(k), _simple(x)) for k, x in v.items()))
    return getattr(v, 'bib', type(v).__name__)


def dedup_key(c):
    """State identity for BFS de-duplication: every attribute of the competition and its athletes (generic over
    attribute names; the action log is left out - it grows with every call and never influences behaviour)."""
    js = sorted(c.jumpers, key=lambda j: str(j.bib))
    comp = tuple(sorted((k, _simple(v)) for k, v in vars(c).items() if k not in ('actions', 'jumpers_by_bib', 'jumpers')))
    return (comp, tuple(tuple(sorted((k, _simple(v)) for k, v in vars(j).items())) for j in js))


_SCALARS = (str, int, float, bool, Decimal, tuple, type(None))
_plans = {}


def _plan(obj):
    """Which attributes hold containers (computed once per attribute-name/type signature)."""
    d = vars(obj)
    sig = (type(obj), tuple((k, type(v)) for k, v in d.items()))
    p = _plans.get(sig)
    if p is None:
        lists = [k for k, v in d.items() if isinstance(v, list)]
        dicts = [k for k, v in d.items() if isinstance(v, dict)]
        odd = [k for k, v in d.items() if not isinstance(v, _SCALARS + (list, dict))]
        p = _plans[sig] = (lists, dicts, odd)
    return p


def clone(c):
    """Structure-preserving copy, generic over attribute names (deepcopy for anything unusual)."""
    try:
        jmap = {}
        for j in c.jumpers:
            lists, dicts, odd = _plan(j)
            if dicts or odd:
                return copy.deepcopy(c)
            j2 = copy.copy(j)
            d2 = j2.__dict__
            for k in lists:
                d2[k] = list(d2[k])
            jmap[id(j)] = j2
        lists, dicts, odd = _plan(c)
        if odd:
            return copy.deepcopy(c)
        c2 = copy.copy(c)
        d2 = c2.__dict__
        get = jmap.get
        for k in lists:
            v = d2[k]
            d2[k] = [get(id(x), x) for x in v] if v and id(v[0]) in jmap else list(v)
        for k in dicts:
            d2[k] = {kk: get(id(x), x) for kk, x in d2[k].items()}
        return c2
    except Exception:
        return copy.deepcopy(c)


def observe(c):
    """Cards, places, bests, stage for the C03 predicate and model comparison."""
    return {
        'stage': c.state,
        'heights': list(c.heights),
        'cards': {j.bib: list(strip(j.attempts_by_height)) for j in c.jumpers},
        'places': {j.bib: j.place for j in c.jumpers},
        'bests': {j.bib: j.highest_cleared for j in c.jumpers},
    }
