"""C07 — event-code normalisation yields one canonical, valid, stable spelling."""
import random

import hypothesis
from hypothesis import given, settings, strategies as st, HealthCheck, Phase

import athlib
from athlib import codes
from vlib import codegen, variants
from vlib.harness import V, derive_seed, run_shards
from vlib.lib import call, OddStr

PROPERTY = 'C07'
AMBIENT_PASS = True        # the same search once more under unusual ambient settings (vlib.run.AMBIENT_SETTINGS)
RULE = ('codes generated from the syntax tree of PAT_EVENT_CODE (weighted over all alternatives; alternative coverage '
        'reported), with surrounding whitespace, each with up to 4 spelling variants (case / spacing / k-kg-g suffix / '
        'trailing zeros, kept only when still accepted), single-edit near misses and arbitrary text for the refusal clause; '
        'seeded bulk generation plus a Hypothesis-driven (shrinkable) share; oracle = algebraic laws: normal form accepted, '
        'whitespace-free, idempotent, no family lost and same measurement kind, all variants confluent, non-codes raise '
        'ValueError; non-trivial = an accepted code that exercises a normalising group or contains internal whitespace or '
        'lower case; distinct inputs')
ASSUMPTIONS = ['"same families" is checked as: no family that accepts the input rejects the normal form, and the measurement '
               'kind is unchanged (strict equality is unattainable: e.g. "0 w" is a track-only spelling of the code "0W")']
RULE = RULE + '; refusal cases include Unicode look-alikes of valid codes and format characters (%, braces, quotes, NUL)'

FAMILIES = ['PAT_TRACK', 'PAT_HURDLES', 'PAT_ROAD', 'PAT_RELAYS', 'PAT_JUMPS', 'PAT_THROWS', 'PAT_MULTI',
            'PAT_RACES_FOR_DISTANCE', 'PAT_HIGHSCORING_EVENT', 'PAT_LOWSCORING_EVENT']
KINDS = {'timed': 'PAT_TIMED_EVENT', 'field': 'PAT_FIELD', 'multi': 'PAT_MULTI', 'fixed': 'PAT_RACES_FOR_DISTANCE'}
NORM_GROUPS = variants.DEC_GROUPS + variants.G_GROUPS


def families(s):
    return [f for f in FAMILIES if getattr(codes, f).match(s)]


def kinds(s):
    return sorted(k for k, n in KINDS.items() if getattr(codes, n).match(s))


def ws_class(n):
    ws = [ch for ch in n if ch.isspace()]
    if not ws:
        return None
    return 'ascii' if all(ord(ch) < 128 for ch in ws) else 'unicode'


def group_names(s):
    m = codes.PAT_EVENT_CODE.match(s)
    if not m:
        return []
    return sorted(k for k, v in m.groupdict().items() if v and k in NORM_GROUPS)


def examine(case):
    """case: {'s': string, 'variants': [[kind, string], ...]}"""
    s = case['s']
    out = []
    core = s.strip()
    accepted = bool(codes.PAT_EVENT_CODE.match(core))
    r = call(athlib.normalize_event_code, s)
    if not accepted:
        if not (r[0] == 'exc' and r[1] == 'ValueError'):
            out.append(V('non-codes-refused', ['refusal', r[1] if r[0] == 'exc' else 'returned'], {'s': s}, r, 'ValueError'))
        return out
    if r[0] == 'exc':
        out.append(V('normalises', ['raises', r[1], r[3][0]], {'s': s}, r))
        return out
    n = r[1]
    if len(s) % 3 == 0:
        # the same text handed over as a str subclass whose str() is something else (a str-mixin Enum member): still that text
        ro = call(athlib.normalize_event_code, OddStr(s))
        if ro[:2] != r[:2]:
            out.append(V('normalises', ['str-subclass-differs', ro[1] if ro[0] == 'exc' else 'value'], {'s': s, 'carrier': 'str-subclass'}, ro[:3], n))
    gn = group_names(core)
    fam_in = families(core)
    tag = gn[0] if gn else (fam_in[0] if fam_in else 'none')
    if not isinstance(n, str):
        return [V('normalises', ['type', type(n).__name__], {'s': s}, n)]
    if not athlib.check_event_code(n):
        out.append(V('normal-form-accepted', ['normal-form-rejected', tag], {'s': s}, n))
    w = ws_class(n)
    if w:
        out.append(V('no-whitespace', ['whitespace-survives', w], {'s': s}, n))
    r2 = call(athlib.normalize_event_code, n)
    if athlib.check_event_code(n) and r2 != ('ret', n):
        out.append(V('idempotent', ['not-idempotent', tag], {'s': s}, [n, r2]))
    if athlib.check_event_code(n):
        lost = [f for f in fam_in if not getattr(codes, f).match(n)]
        if lost:
            out.append(V('same-families', ['family-lost', lost[0]], {'s': s}, {'normal': n, 'lost': lost}))
        if kinds(core) != kinds(n):
            out.append(V('same-families', ['kind-changed'], {'s': s}, {'normal': n, 'kinds': [kinds(core), kinds(n)]}))
    for kind, v in case.get('variants', ()):
        if not codes.PAT_EVENT_CODE.match(v.strip()):
            # a spelling that is NOT a code must be refused - also right after its valid twin was normalised
            rv = call(athlib.normalize_event_code, v)
            if not (rv[0] == 'exc' and rv[1] == 'ValueError'):
                out.append(V('non-codes-refused', ['refusal-after-valid-twin', rv[1] if rv[0] == 'exc' else 'returned'],
                             {'s': s, 'variants': [[kind, v]]}, rv[:2], 'ValueError'))
            continue
        rv = call(athlib.normalize_event_code, v)
        if rv != ('ret', n):
            out.append(V('variants-confluent', ['variant-diverges', kind], {'s': s, 'variants': [[kind, v]]},
                         {'normal': n, 'variant_normal': rv}))
    return out


def nontrivial(s):
    core = s.strip()
    return bool(group_names(core)) or any(ch.isspace() for ch in core) or any(ch.islower() for ch in core)


def make_case(g, draw, pad=True):
    s = g.generate(draw, long_digits=(draw(9) == 0))
    vs = []
    for i_ in range(5):
        # single transformations, and one chain of two or three in a row (a trailing zero AND an odd blank AND other case)
        kind, v = variants.variant(s, draw) if i_ < 4 else variants.variant_chain(s, draw, 2 + draw(2))
        if v != s and kind is not None:
            vs.append([kind, v])
    if pad and draw(5) == 0:
        s = [' ', '  ', '\t', '\n'][draw(4)] + s + ['', ' ', '\n'][draw(3)]
    return {'s': s, 'variants': vs}


def make_reject(g, draw):
    k = draw(5)
    if k == 4:
        # Unicode look-alikes of a valid code (superscript digits, full-width letters, long s ...): whatever the pattern
        # says about them - a few ARE codes, `\d` admits every decimal digit - normalisation must agree with it
        return {'s': codegen.lookalikes(g.generate(draw), draw), 'lookalike': True}
    if k == 0:
        junk = ['', ' ', 'DNF', '100m', 'HJ1', '4x', 'x100', 'SP7.26', '1.5K5', 'MILES', 'sst', 'SWT 7', 'DT1.5', '60h84', '--',
                '100%', '%s', '%d', '%(c)s', '{0}', '{}', '4%20x%20100', 'DT%sK', '100\\', "HJ'", '\x00']
        return {'s': junk[draw(len(junk))]}
    s = g.generate(draw)
    s = codegen.near_misses(s, draw)
    if k == 2:
        s = codegen.near_misses(s, draw)
    return {'s': s}


def shard(ctx, payload):
    n = payload
    g = codegen.Gen(codes.PAT_EVENT_CODE, 'PAT_EVENT_CODE')
    rng = random.Random(derive_seed(ctx.seed, 'C07', ctx.shard))
    for i in range(n):
        case = make_case(g, rng.randrange) if i % 4 else make_reject(g, rng.randrange)
        do_case(ctx, case)
    c, t = g.coverage()
    ctx.extra['alternative_coverage_per_shard'] = {'shard%02d' % ctx.shard: '%d/%d' % (c, t)}


def do_case(ctx, case):
    ctx.count()
    vs = examine(case)
    ctx.violations(vs)
    core = case['s'].strip()
    if codes.PAT_EVENT_CODE.match(core):
        ctx.label('accepted')
        for kind, v in case.get('variants', ()):
            if codes.PAT_EVENT_CODE.match(v.strip()):
                ctx.label('variant-' + kind.split(':')[0])
        if nontrivial(case['s']):
            ctx.nontrivial(case['s'], case if len(ctx.nt_keys) % 3000 == 17 else None)
    else:
        ctx.label('rejected')
    if case.get('lookalike'):
        ctx.label('unicode-lookalike-' + ('accepted' if codes.PAT_EVENT_CODE.match(core) else 'rejected'))


def shrink(bucket):
    case = bucket['case']
    sig = bucket['sig']
    vs0 = case.get('variants') or []

    def fails(t):
        c = {'s': t, 'variants': vs0}
        return any(v['sig'] == sig for v in examine(c))
    if vs0:
        return None
    t = codegen.ddmin_string(case['s'], fails)
    if t != case['s']:
        v = [v for v in examine({'s': t}) if v['sig'] == sig][0]
        return {'case': v['case'], 'observed': v['observed']}
    return None


def run_hypothesis(ctx, n):
    g = codegen.Gen(codes.PAT_EVENT_CODE, 'PAT_EVENT_CODE')

    @hypothesis.seed(derive_seed(ctx.seed, 'C07-hyp'))
    @settings(max_examples=n, database=None, deadline=None, suppress_health_check=list(HealthCheck),
              phases=[Phase.generate])
    @given(st.data())
    def t(data):
        draw = codegen.hyp_draw(data)
        case = make_case(g, draw) if draw(4) else make_reject(g, draw)
        do_case(ctx, case)
    t()

    @hypothesis.seed(derive_seed(ctx.seed, 'C07-text'))
    @settings(max_examples=n, database=None, deadline=None, suppress_health_check=list(HealthCheck),
              phases=[Phase.generate])
    @given(st.one_of(st.text(max_size=12), st.from_regex(codes.PAT_EVENT_CODE, fullmatch=True)))
    def t2(s):
        ctx.label('hypothesis-text')
        do_case(ctx, {'s': s, 'variants': []})
    t2()


def run(ctx):
    thorough = ctx.tier == 'thorough'
    per = 40000 if thorough else 4000
    run_shards(ctx, 'checks.c07', 'shard', [per] * 16, disjoint=False)
    run_hypothesis(ctx, 4000 if thorough else 600)
