"""Spelling variants of event codes named by C07: case, spacing, unit suffix, trailing zeros."""
import re

from athlib import codes

KG_GROUPS = ('dtnum', 'htnum', 'spnum', 'wtnum', 'swtnum', 'btnum', 'stnum', 'gdtnum')
G_GROUPS = ('jtnum', 'otnum')
DEC_GROUPS = KG_GROUPS + ('hhh', 'hsd', 'hid')
KG_SUFFIXES = ('K', 'k', 'kg', 'Kg', 'KG', 'kG')
_NUM = re.compile(r'\d+(?:\.\d*)?')
_KGSFX = re.compile(r'[Kk][Gg]?\s*$')


def groups(code):
    m = codes.PAT_EVENT_CODE.match(code)
    if not m:
        return None, {}
    return m, {k: m.span(k) for k, v in m.groupdict().items() if v}


def variant(code, draw):
    """Return (kind, variant string) — one transformation of `code`; may be invalid (caller filters)."""
    m, spans = groups(code)
    if m is None:
        return None, code
    choices = ['case', 'space-insert']
    if any(ch.isspace() for ch in code):
        choices.append('space-delete')
    # the known weight groups, and any other '...num' group of the pattern whose text carries a k / kg suffix (a throw added
    # to the vocabulary later is held to the same spelling rules)
    kg = [g for g in spans if g in KG_GROUPS or (g.endswith('num') and g not in G_GROUPS and
                                                _KGSFX.search(code[spans[g][0]:spans[g][1]]))]
    gg = [g for g in G_GROUPS if g in spans]
    dg = [g for g in spans if g in DEC_GROUPS or g in kg]
    # weight the structural variants up: they are the interesting ones
    choices += ['kg-suffix'] * (3 if kg else 0) + ['g-suffix'] * (3 if gg else 0) + ['zeros'] * (4 if dg else 0)
    kind = choices[draw(len(choices))]
    if kind == 'case':
        idx = [i for i, ch in enumerate(code) if ch.isalpha() and ch.swapcase() != ch and len(ch.swapcase()) == 1]
        if not idx:
            return kind, code
        out = list(code)
        mask = draw(2 ** min(len(idx), 10))
        for b, i in enumerate(idx[:10]):
            if (mask >> b) & 1 or mask == 0:
                out[i] = out[i].swapcase()
        return kind, ''.join(out)
    if kind == 'space-insert':
        i = draw(len(code) + 1)
        # usually a blank; now and then another white-space character the patterns' \s admits (tab, no-break space ...)
        ws = ' ' if draw(3) else ['\t', '\u00a0', '\u2003', '\x0b'][draw(4)]
        return kind, code[:i] + ws + code[i:]
    if kind == 'space-delete':
        idx = [i for i, ch in enumerate(code) if ch.isspace()]
        i = idx[draw(len(idx))]
        return kind, code[:i] + code[i + 1:]
    if kind == 'kg-suffix':
        g = kg[draw(len(kg))]
        a, b = spans[g]
        txt = code[a:b]
        mm = _KGSFX.search(txt)
        if not mm:
            return kind, code
        new = KG_SUFFIXES[draw(len(KG_SUFFIXES))]
        return kind + ':' + g, code[:a] + txt[:mm.start()] + new + code[b:]
    if kind == 'g-suffix':
        g = gg[draw(len(gg))]
        a, b = spans[g]
        txt = code[a:b]
        if txt.rstrip().endswith('g'):
            txt2 = txt.rstrip()[:-1]
        else:
            txt2 = txt.rstrip() + 'g'
        return kind + ':' + g, code[:a] + txt2 + code[b:]
    if kind == 'zeros':
        g = dg[draw(len(dg))]
        a, b = spans[g]
        txt = code[a:b]
        nums = list(_NUM.finditer(txt))
        if not nums:
            return kind, code
        nm = nums[-1] if g != 'wtnum' else nums[-1]
        num = nm.group(0)
        k = draw(4)
        if '.' in num:
            if k == 0:
                new = num + '0'
            elif k == 1:
                new = num + '00'
            elif k == 2 and num.endswith('0') and not num.endswith('.0'):
                new = num[:-1]
            else:
                stripped = num.rstrip('0')
                # drop a pure ".000" tail entirely, or just the zeros
                new = stripped[:-1] if stripped.endswith('.') else stripped
        else:
            new = num + ('.0' if k < 2 else '.00' if k == 2 else '.')
        return kind + ':' + g, code[:a] + txt[:nm.start()] + new + txt[nm.end():] + code[b:]
    return kind, code


def variant_chain(code, draw, steps=2):
    """`steps` transformations in a row (a trailing zero AND an odd blank AND another case ...): each intermediate must still
    be a code, otherwise the chain stops at the last spelling that is one.  Returns (kinds joined by '+', spelling)."""
    kinds, cur = [], code
    for _ in range(steps):
        k, v = variant(cur, draw)
        if k is None or v == cur or not codes.PAT_EVENT_CODE.match(v.strip()):
            break
        kinds.append(k)
        cur = v
    return '+'.join(kinds) or None, cur
