"""Deterministic thread scheduler: the harness owns the interleaving.

N real threads run thunks; exactly one holds the token.  Each worker installs a sys.settrace tracer that fires on
`line` events of frames whose file lies under the athlib package; every such event is a numbered yield point of
that thread.  A schedule is a list of pre-emptions [(thread, yield index, switch to thread)], consumed in order:
when the running thread reaches the stated yield index the token goes to the target thread; a finishing thread
hands the token to the next unfinished one.  If the token holder makes no progress for WATCHDOG seconds (it is
blocked on a lock held by a parked thread - possible only once the library uses locks) all threads are released
and run freely to completion: that can only change the schedule, never produce a violation by itself.
"""
import os
import sys
import threading
import time
import weakref

from .lib import ATHLIB_DIR

WATCHDOG = 0.05
UNTRACED_TAIL = True
_real_Lock, _real_RLock = threading.Lock, threading.RLock
_ALL_LOCKS = weakref.WeakSet()
_current = threading.local()          # .run / .tid of the scheduled thread we are in


class CoopLock(object):
    """Proxy for a lock object found in the library: an acquire that would block hands the token to another
    thread instead of waiting on the OS lock (which would stall until the watchdog fires)."""

    def __init__(self, inner):
        self.inner = inner
        self.kind = _real_RLock if isinstance(inner, type(_real_RLock())) else _real_Lock
        _ALL_LOCKS.add(self)

    def acquire(self, blocking=True, timeout=-1):
        run = getattr(_current, 'run', None)
        if run is None or run.free or not blocking:
            return self.inner.acquire(blocking, timeout) if blocking else self.inner.acquire(False)
        if timeout is not None and timeout >= 0:
            # an acquire that gives up after a while: whether the holder is done in time is the scheduler's choice too -
            # in an `expire_timeouts` run a timed acquire that finds the lock taken fails at once (the holder was slow)
            run.timed_acquires += 1
            if run.expire_timeouts:
                return self.inner.acquire(False)
        spins = 0
        while not self.inner.acquire(False):
            if run.free:
                return self.inner.acquire(timeout=2.0) or _deadlock()
            if run.blocked_yield(_current.tid):
                spins = 0
            else:
                spins += 1
                if spins > 40:           # nobody else can run: the holder has finished without releasing
                    _deadlock()
        return True

    def release(self):
        return self.inner.release()

    def __enter__(self):
        self.acquire()
        return self

    def __exit__(self, *a):
        self.release()


def reset_locks():
    """Before each run: a library lock still held (by a thread of an earlier run that finished, or hangs, without
    releasing it) is replaced by a fresh one, so that one bad schedule cannot poison every later run of the process.
    Returns how many were replaced."""
    n = 0
    for l in list(_ALL_LOCKS):
        if l.inner.acquire(False):
            l.inner.release()
        else:
            l.inner = l.kind()
            n += 1
    return n


class Deadlock(Exception):
    """A scheduled thread waits for a lock that no runnable thread can release."""


def _deadlock():
    raise Deadlock('lock is held by a thread that has finished (or is itself blocked): the call would never return')


_LOCK_TYPES = (type(threading.Lock()), type(threading.RLock()))


class _ThreadingProxy(object):
    """Stands in for the `threading` module inside the library's modules: locks created at run time (lazily, per
    instance) become cooperative too; everything else is the real module."""

    def __getattr__(self, name):
        return getattr(threading, name)

    @staticmethod
    def Lock():
        return CoopLock(_real_Lock())

    @staticmethod
    def RLock():
        return CoopLock(_real_RLock())


_proxy = _ThreadingProxy()


def cooperative_locks(prefix='athlib'):
    """Wrap every module-level lock of the library in a CoopLock and make locks it creates later cooperative as well
    (idempotent).  Returns how many module-level locks are wrapped."""
    n = 0
    for name, m in list(sys.modules.items()):
        if m is None or not (name == prefix or name.startswith(prefix + '.')):
            continue
        for k, v in list(vars(m).items()):
            if isinstance(v, _LOCK_TYPES):
                setattr(m, k, CoopLock(v))
                n += 1
            elif isinstance(v, CoopLock):
                n += 1
            elif v is threading:
                setattr(m, k, _proxy)
            elif v is _real_Lock:
                setattr(m, k, _ThreadingProxy.Lock)
            elif v is _real_RLock:
                setattr(m, k, _ThreadingProxy.RLock)
    return n


class Run(object):
    def __init__(self, thunks, schedule, first=0, record_lines=False, probe=None, untraced_tail=None, expire_timeouts=False):
        self.thunks = thunks
        self.n = len(thunks)
        self.schedule = list(schedule)        # [(tid, index, target)]
        self.pos = 0
        self.sems = [threading.Semaphore(0) for _ in thunks]
        self.counts = [0] * self.n
        self.done = [False] * self.n
        self.results = [None] * self.n
        self.free = False
        self.progress = 0
        self.first = first
        self.switches = []
        self.lines = [[] for _ in thunks] if record_lines else None
        # once the last pre-emption of the schedule has happened nothing remains to be decided: tracing is switched off for
        # the rest of the run (new frames run untraced), so that interpreter-level accounting that differs under a tracer -
        # recursion depth above all - is that of an ordinary program where it matters
        self.untraced_tail = UNTRACED_TAIL if untraced_tail is None else untraced_tail
        self.expire_timeouts = expire_timeouts
        self.timed_acquires = 0
        self.probe = probe                  # callable sampled at every yield point (process-wide settings), record mode only
        self.probes = [[] for _ in thunks] if probe else None
        self.lock = threading.Lock()
        self.finished = threading.Event()
        self.blocked_yields = 0

    # ---- tracing ------------------------------------------------------------------
    def _global_tracer(self, tid):
        def local(frame, event, arg):
            if event == 'line':
                self._yield_point(tid, frame)
            return local

        def glob(frame, event, arg):
            fn = frame.f_code.co_filename
            if fn.startswith(ATHLIB_DIR):
                return local
            return None
        return glob

    def _yield_point(self, tid, frame):
        if self.free:
            return
        if self.untraced_tail and self.pos >= len(self.schedule) and self.lines is None and self.probes is None:
            sys.settrace(None)
            return
        idx = self.counts[tid]
        self.counts[tid] = idx + 1
        self.progress += 1
        if self.lines is not None:
            self.lines[tid].append((frame.f_code.co_name, frame.f_lineno))
        if self.probes is not None:
            try:
                self.probes[tid].append(self.probe())
            except Exception:
                self.probes[tid].append(None)
        if self.pos < len(self.schedule):
            s = self.schedule[self.pos]
            if s[0] == tid and s[1] == idx:
                self.pos += 1
                target = s[2]
                if not self.done[target] and target != tid:
                    self.switches.append((tid, idx, target, frame.f_code.co_name, frame.f_lineno))
                    self.sems[target].release()
                    self._wait(tid)

    def blocked_yield(self, tid):
        """The running thread cannot proceed (lock held by a parked thread): let another unfinished thread run."""
        self.progress += 1
        self.blocked_yields += 1
        for k in range(1, self.n + 1):
            t = (tid + k) % self.n
            if t != tid and not self.done[t]:
                self.sems[t].release()
                self._wait(tid)
                return True
        time.sleep(0.0002)
        return False

    def _wait(self, tid):
        while not self.sems[tid].acquire(timeout=WATCHDOG * 4):
            if self.free:
                return

    def _worker(self, tid):
        self._wait(tid)
        _current.run, _current.tid = self, tid
        sys.settrace(self._global_tracer(tid))
        try:
            try:
                self.results[tid] = ('ret', self.thunks[tid]())
            except BaseException as e:
                self.results[tid] = ('exc', type(e).__name__, str(e)[:120])
        finally:
            sys.settrace(None)
            with self.lock:
                self.done[tid] = True
                self.progress += 1
                if all(self.done):
                    self.finished.set()
                if not self.free:
                    # a pending pre-emption of this thread can no longer happen: skip it
                    while self.pos < len(self.schedule) and self.done[self.schedule[self.pos][0]]:
                        self.pos += 1
                    for k in range(1, self.n + 1):
                        t = (tid + k) % self.n
                        if not self.done[t]:
                            self.sems[t].release()
                            break

    def run(self):
        # the callers are threads the `threading` module does not know about (started through _thread, like threads created
        # by an extension module or an embedding host): real threads all the same, but threading.active_count() /
        # enumerate() do not see them - whatever the library decides from those, the answers must not change
        import _thread
        self._exited = [threading.Event() for _ in range(self.n)]

        def body(i):
            try:
                self._worker(i)
            finally:
                self._exited[i].set()
        for i in range(self.n):
            _thread.start_new_thread(body, (i,))
        self.sems[self.first].release()
        last = -1
        waited = 0.0
        freed_at = None
        self.hung = False
        while not self.finished.wait(WATCHDOG):
            waited += WATCHDOG
            if self.progress == last and not self.free:
                self.free = True
                freed_at = waited
                for s in self.sems:
                    s.release()
            last = self.progress
            if waited > 40 or (freed_at is not None and waited - freed_at > 15):
                self.hung = True          # some thread is blocked for good (a lock the proxies do not cover)
                break
        for e in self._exited:
            e.wait(timeout=0.2 if self.hung else 5)
        return self.results


def solo(thunk, record_lines=False, probe=None):
    """Run one thunk alone under the tracer: (result, number of yield points[, lines]); with `probe`, the lines slot holds
    (lines, probe values per yield point)."""
    r = Run([thunk], [], record_lines=record_lines, probe=probe, untraced_tail=False)      # fully traced: counts the yield points
    res = r.run()
    if probe:
        return res[0], r.counts[0], (r.lines[0] if record_lines else None, r.probes[0])
    return res[0], r.counts[0], (r.lines[0] if record_lines else None)


def solo_result(thunk):
    """The outcome of the thunk run alone in a scheduled thread (tracing off from its first line, as in the tail of every
    scheduled run): what the scheduled outcomes are compared with."""
    r = Run([thunk], [], untraced_tail=True)
    return r.run()[0]
