"""Reference model of the high-jump / pole-vault competition rules (C02, C03, C08).

Written from the text of the properties and the countback rule quoted in the module header of
athlib/highjump.py, not from its _rank().  Three-valued: MUST_ACCEPT / MUST_REJECT / UNSPECIFIED.
"""
from decimal import Decimal

ACCEPT, REJECT, UNSPEC = 'must-accept', 'must-reject', 'unspecified'
LEVEL = {'scheduled': 0, 'started': 1, 'jumpoff': 2, 'won': 2, 'finished': 3, 'drawn': 3}
TRIALS = ('cleared', 'failed', 'passed', 'retired')
LETTER = {'cleared': 'o', 'failed': 'x', 'passed': '-', 'retired': 'r'}


class A(object):
    __slots__ = ('bib', 'card', 'consec', 'out', 'retired', 'done', 'lim', 'in_jo', 'knocked')

    def __init__(self, bib):
        self.bib = bib
        self.card = []          # one string per height the athlete has acted at (padded)
        self.consec = 0
        self.out = False        # eliminated (three consecutive failures, jump-off failure, retirement)
        self.retired = False
        self.done = False       # cleared or passed the current height
        self.lim = 3
        self.in_jo = False      # jump-off participant
        self.knocked = False    # went out in an earlier jump-off round while another participant survived

    def copy(self):
        b = A(self.bib)
        b.card = list(self.card)
        for k in ('consec', 'out', 'retired', 'done', 'lim', 'in_jo', 'knocked'):
            setattr(b, k, getattr(self, k))
        return b


def countback_key(card, heights, upto=None):
    """(-best, failures at best, failures up to and including best) over columns [0, upto)."""
    n = len(card) if upto is None else min(upto, len(card))
    best_i = -1
    for i in range(n):
        if 'o' in card[i]:
            if best_i < 0 or heights[i] > heights[best_i]:
                best_i = i
    if best_i < 0:
        return None
    # several columns can carry the same (greatest) height only in jump-offs; regular heights strictly rise
    fa = card[best_i].count('x')
    ft = fa + sum(c.count('x') for c in card[:best_i])
    return (-heights[best_i], fa, ft)


class Model(object):
    def __init__(self):
        self.stage = 'scheduled'
        self.heights = []
        self.ath = {}            # bib -> A
        self.order = []          # bibs in order of addition
        self.first_jo = None     # index of the first jump-off height
        self.left_spec = None    # reason once the history left specified territory
        self.no_clearance_jumpoff = False

    def copy(self):
        m = Model()
        m.stage = self.stage
        m.heights = list(self.heights)
        m.ath = {b: a.copy() for b, a in self.ath.items()}
        m.order = list(self.order)
        m.first_jo = self.first_jo
        m.left_spec = self.left_spec
        m.no_clearance_jumpoff = self.no_clearance_jumpoff
        return m

    # ---- expectation -----------------------------------------------------------------------
    def expect(self, call):
        """(verdict, reason) for call = ('add', bib) | ('bar', Decimal) | (trial, bib)."""
        op, arg = call
        op = op.split(':')[0]          # 'add:<keywords variant>' is the same call as 'add'
        st = self.stage
        if op == 'add':
            if st != 'scheduled':
                return REJECT, 'late-add'
            if arg in self.ath:
                return REJECT, 'dup-bib'
            return ACCEPT, ''
        if op == 'bar':
            if st in ('finished', 'drawn'):
                return REJECT, 'decided'
            prev = self.heights[-1] if self.heights else Decimal('0.00')
            if st == 'jumpoff':
                live = [a for a in self.ath.values() if a.in_jo and not a.out]
                if self.first_jo is not None and len(self.heights) > self.first_jo and any(not a.done for a in live):
                    return UNSPEC, 'jumpoff-bar-moved-early'
                return ACCEPT, ''
            if arg > prev:
                return ACCEPT, ''
            return REJECT, 'bar-not-up'
        if op == 'badtrial':
            return REJECT, 'unknown-trial-letter'
        a = self.ath[arg]
        if st == 'scheduled':
            return REJECT, 'not-started'
        if st in ('finished', 'drawn'):
            return REJECT, 'decided'
        if a.retired:
            return REJECT, 'retired'
        if a.out:
            return REJECT, ('knocked-out-in-jumpoff' if a.knocked else 'out')
        if a.done:
            return REJECT, 'done-at-height'
        cell = a.card[len(self.heights) - 1] if len(a.card) >= len(self.heights) and self.heights else ''
        if len(cell) >= a.lim:
            return REJECT, 'attempt-limit'
        if st == 'jumpoff' and op == 'passed':
            return UNSPEC, 'pass-in-jumpoff'
        return ACCEPT, ''

    # ---- transition ------------------------------------------------------------------------
    def apply(self, call):
        op, arg = call
        op = op.split(':')[0]
        if op == 'add':
            self.ath[arg] = A(arg)
            self.order.append(arg)
            return
        if op == 'bar':
            if self.stage == 'scheduled':
                self.stage = 'started'
            self.heights.append(arg)
            if self.stage == 'jumpoff' and self.first_jo is None:
                self.first_jo = len(self.heights) - 1
            for a in self.ath.values():
                if not a.out:
                    a.done = False
            return
        a = self.ath[arg]
        n = len(self.heights)
        while len(a.card) < n:
            a.card.append('')
        a.card[n - 1] += LETTER[op]
        if op == 'cleared':
            a.consec = 0
            a.done = True
        elif op == 'failed':
            a.consec += 1
            if a.consec >= a.lim:
                a.out = True
                a.done = True
        elif op == 'passed':
            a.done = True
        else:
            a.retired = a.out = a.done = True
        self._after_trial()

    def _after_trial(self):
        aths = [self.ath[b] for b in self.order]
        live = [a for a in aths if not a.out]
        n = len(self.heights)
        if self.stage in ('started', 'won'):
            if not live:
                keys = {a.bib: countback_key(a.card, self.heights) for a in aths}
                placed = [k for k in keys.values() if k is not None]
                if not placed:
                    if len(aths) > 1:
                        # the rules say nothing about a competition without any clearance
                        self.left_spec = 'all athletes out without a single clearance'
                        self.no_clearance_jumpoff = True
                    self.stage = 'finished' if len(aths) == 1 else self.stage
                    return
                top = min(placed)
                tied = [a for a in aths if keys[a.bib] == top]
                if len(tied) == 1:
                    self.stage = 'finished'
                    return
                parts = [a for a in tied if not a.retired]
                if not parts:
                    self.stage = 'drawn'
                    return
                self.stage = 'jumpoff'
                for a in parts:
                    a.out = False
                    a.lim = 1
                    a.consec = 0
                    a.in_jo = True
                    a.done = True        # one attempt per height from the next bar on
                for a in tied:
                    a.in_jo = True
                return
            if len(live) == 1 and len(live[0].card) == n and 'o' in live[0].card[n - 1]:
                self.stage = 'won'
            return
        if self.stage == 'jumpoff':
            parts = [a for a in aths if a.in_jo]
            live = [a for a in parts if not a.out]
            if not live:
                # everybody still in went out at this height: those who failed it jump again
                again = [a for a in parts if not a.retired and not a.knocked]
                if not again:
                    self.stage = 'drawn'      # everybody still tied has retired
                    return
                for a in again:
                    a.out = False
                    a.consec = 0
                    a.done = True
                return
            cleared_now = [a for a in live if len(a.card) == n and 'o' in a.card[n - 1]]
            if cleared_now:
                # anybody who went out at this height while another participant cleared it is out for good
                for a in parts:
                    if a.out and not a.retired:
                        a.knocked = True
            if len(live) == 1 and cleared_now:
                self.stage = 'finished'
            return

    # ---- observation -----------------------------------------------------------------------
    def cards(self):
        return {b: strip_card(self.ath[b].card) for b in self.order}

    def legal_calls(self, bar_choices):
        out = []
        for b in self.order:
            for op in TRIALS:
                if self.expect((op, b))[0] == ACCEPT:
                    out.append((op, b))
        for h in bar_choices:
            if self.expect(('bar', h))[0] == ACCEPT:
                out.append(('bar', h))
        return out


def strip_card(card):
    c = list(card)
    while c and c[-1] == '':
        c.pop()
    return c


# ---------------------------------------------------------------------------------------------
# C03: validity of final placings, computed from the cards alone

def places_valid(cards, heights, first_jo, stage, places, bests):
    """Return a list of (clause, detail) violations of the countback / jump-off rules.

    cards: {bib: [cell, ...]}, heights: [Decimal], first_jo: index of the first jump-off column or
    None, places: {bib: int or ''}, bests: {bib: Decimal}.
    """
    out = []
    bibs = list(cards)
    nreg = len(heights) if first_jo is None else first_jo
    key = {b: countback_key(cards[b], heights, nreg) for b in bibs}
    # (6) best = greatest height with an 'o' anywhere on the card
    for b in bibs:
        hs = [heights[i] for i, c in enumerate(cards[b]) if 'o' in c]
        want = max(hs) if hs else Decimal('0.00')
        if bests[b] != want:
            out.append(('best-is-greatest-cleared', {'bib': b, 'best': str(bests[b]), 'want': str(want)}))
    # (1) unplaced iff no clearance anywhere
    for b in bibs:
        has = any('o' in c for c in cards[b])
        if has != (places[b] != ''):
            out.append(('unplaced-iff-no-clearance', {'bib': b, 'place': places[b]}))
    placed = [b for b in bibs if places[b] != '']
    if not placed:
        return out
    # (2) standard competition ranking
    for b in placed:
        ahead = sum(1 for c in placed if places[c] < places[b])
        if places[b] != ahead + 1:
            out.append(('standard-competition-ranking', {'bib': b, 'place': places[b], 'strictly_ahead': ahead}))
    # who took part in the jump-off (tied for first on the regular card)
    regular_placed = [b for b in bibs if key[b] is not None]
    parts = []
    if first_jo is not None and regular_placed:
        top = min(key[b] for b in regular_placed)
        parts = [b for b in regular_placed if key[b] == top]
    # (3) countback order
    for a in bibs:
        for b in bibs:
            if a >= b or key[a] is None or key[b] is None:
                continue
            if places[a] == '' or places[b] == '':
                continue
            if key[a] != key[b]:
                x, y = (a, b) if key[a] < key[b] else (b, a)
                if not places[x] < places[y]:
                    out.append(('countback-order', {'ahead': x, 'behind': y, 'places': [places[x], places[y]]}))
            else:
                if places[a] != places[b] and not (a in parts and b in parts):
                    out.append(('ties-share-a-place', {'bibs': [a, b], 'places': [places[a], places[b]]}))
    # (3b) the jump-off is about FIRST place: participants it did not make first are placed by their cards like anybody
    # else - exactly tied over the whole card (jump-off columns included), they share a place whichever round they left in
    if parts:
        full = {b: countback_key(cards[b], heights) for b in parts}
        for a in parts:
            for b in parts:
                if a < b and places[a] not in (1, '') and places[b] not in (1, '') and full[a] == full[b] \
                        and places[a] != places[b]:
                    out.append(('ties-share-a-place', {'bibs': [a, b], 'places': [places[a], places[b]],
                                                       'among': 'jump-off participants not placed first'}))
    firsts = [b for b in placed if places[b] == 1]
    # (4) no tie for first left standing unless drawn
    if stage in ('finished', 'won') and len(firsts) != 1:
        out.append(('tie-for-first-not-left-standing', {'first': firsts, 'stage': stage}))
    if stage == 'drawn':
        # first place is shared, and only by athletes who were tied for first (participants who dropped out
        # of the jump-off while others went on are no longer part of the tie)
        if len(firsts) < 2 or (first_jo is not None and not set(firsts) <= set(parts)):
            out.append(('drawn-shared-by-the-tied', {'first': firsts, 'tied': parts}))
    # (5) after a jump-off the survivor is first, other participants ahead of non-participants
    if parts and stage == 'finished':
        others = [b for b in placed if b not in parts]
        for p in parts:
            for o in others:
                if not places[p] < places[o]:
                    out.append(('participants-ahead-of-the-rest', {'participant': p, 'other': o,
                                                                   'places': [places[p], places[o]]}))
        # (7) a jump-off failure at a height another participant cleared is final
        for i in range(first_jo, len(heights)):
            col = {p: (cards[p][i] if i < len(cards[p]) else '') for p in parts}
            if any('o' in c for c in col.values()):
                for p in parts:
                    if 'x' in col[p] and any(cards[p][i + 1:]):
                        out.append(('jump-off-elimination-is-final', {'bib': p, 'column': i, 'later': cards[p][i + 1:]}))
        # survivor: the participant who cleared the last jump-off height / was never knocked out
        surv = [p for p in parts if len(cards[p]) == len(heights) and 'o' in cards[p][-1]]
        if len(surv) == 1 and places[surv[0]] != 1:
            out.append(('jump-off-survivor-first', {'survivor': surv[0], 'place': places[surv[0]]}))
    return out
