#!/venv/bin/python
"""atheris target for C06: bytes -> (parse_hms text | format_seconds_as_time duration | round_up_str_num string)."""
import json
import os
import sys

import atheris

with atheris.instrument_imports(include=['athlib']):
    import athlib  # noqa: F401
from checks import c06
from vlib.harness import sig_hash

SKIP = set(json.loads(os.environ.get('VERIF_KNOWN_SIGS', '[]')) + json.loads(os.environ.get('VERIF_EXCLUDE_SIGS', '[]')))
ALPHA = '0123456789:;. -+eE_xinfa,'


def TestOneInput(data):
    fdp = atheris.FuzzedDataProvider(data)
    mode = fdp.ConsumeIntInRange(0, 3)
    if mode == 0:
        n = fdp.ConsumeIntInRange(0, 14)
        text = ''.join(ALPHA[fdp.ConsumeIntInRange(0, len(ALPHA) - 1)] for _ in range(n))
        case = {'kind': 'parse', 'text': text}
    elif mode == 1:
        case = {'kind': 'parse', 'text': fdp.ConsumeUnicodeNoSurrogates(12)}
    elif mode == 2:
        whole = fdp.ConsumeIntInRange(0, 360000)
        k = fdp.ConsumeIntInRange(0, 3)
        frac = [fdp.ConsumeIntInRange(0, 999) / 1000.0, 10.0 ** -fdp.ConsumeIntInRange(3, 16),
                1 - 10.0 ** -fdp.ConsumeIntInRange(3, 16), fdp.ConsumeProbability()][k]
        case = {'kind': 'format', 'seconds': whole + frac, 'prec': fdp.ConsumeIntInRange(0, 3)}
    else:
        ni, nf = fdp.ConsumeIntInRange(0, 4), fdp.ConsumeIntInRange(0, 7)
        s = ''.join(str(fdp.ConsumeIntInRange(0, 9)) for _ in range(ni)) + '.' + \
            ''.join(str(fdp.ConsumeIntInRange(0, 9)) for _ in range(nf))
        case = {'kind': 'round', 's': s, 'prec': fdp.ConsumeIntInRange(0, 5)}
    for v in c06.examine(case):
        if sig_hash(v['sig']) not in SKIP:
            print('FUZZ-VIOLATION ' + json.dumps(v))
            sys.stdout.flush()
            raise RuntimeError('C06 violation')


if __name__ == '__main__':
    atheris.Setup(sys.argv, TestOneInput)
    atheris.Fuzz()
