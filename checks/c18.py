"""C18 — the JavaScript port computes the same answers as the Python reference."""
import itertools
import math
import random
import re

import athlib
from athlib import codes
from vlib import junior, variants
from vlib.exact import centi_float
from vlib.harness import V, derive_seed, run_shards
from vlib.jsbridge import Node
from vlib.lib import call, mod

PROPERTY = 'C18'
AMBIENT_PASS = True        # the same search once more under unusual ambient settings (vlib.run.AMBIENT_SETTINGS)
RULE = ('the same input grids as C06 and C11, sent to a persistent node process that loads js/src/*.js from the working tree: '
        'round_up_str_num/roundUpStrNum (digit strings x prec), format_seconds_as_time/formatSecondsAsTime (boundary and '
        'residue durations x prec incl. bad precisions), parse_hms/parseHms (structured texts, well-formed or junk on which '
        'both must refuse), is_hand_timing/isHandTiming (numbers and numeric texts with 0-3 decimals), '
        'normalize_event_code/normalizeEventCode (every Tyrving and QuadKids table key and its spelling variants), '
        'tyrving_score/tyrvingScore and qkids_score/qkidsScore (every table x centi-marks in float, text, hand-timed text, comma '
        'and m:ss.xx form, plus unknown events / ages); oracle = differential: same value (strings and integers exactly, floats '
        'equal after the JSON round trip) or both refuse; a JS NaN/undefined counts as a value; plus structural equality of the '
        'duplicated tables; non-trivial = an input on a non-default path (rounding carry, hand timing, a ":"-field text, a '
        'normalising group, a beyond-table or clamped score); distinct inputs')
RULE = RULE + '; fractional ages at the first, a middle and the last age class; spelling variants in chains of two or three with tab / no-break / em space'
ASSUMPTIONS = ['shared domain: decimal-digit numeric strings both languages define (no Python-only literals such as 1_0, inf, Unicode digits); '
               'm:ss texts only for running events',
               'functions outside the listed pairs (highjump.js, uka_agegroups.js, checkPerformanceForDiscipline) are not compared']
RULE = RULE + '; Tyrving under gender words and labels (Women, U15 F, SM, xM ...)' + '; Tyrving and QuadKids also under caller spellings of event / gender / competition type x every carrier incl. minute forms; round-up with explicit maxDP'


def same(py, js):
    """Compare a Python outcome ('ret', v) / ('exc', ...) with a JS outcome."""
    if py[0] == 'exc' or js[0] == 'exc':
        return py[0] == js[0]
    a, b = py[1], js[1]
    if isinstance(b, tuple):          # NaN / undefined / Infinity are values, and never equal to a Python number here
        if isinstance(a, float) and b[1] in ('NaN', 'Infinity', '-Infinity'):
            return (math.isnan(a) and b[1] == 'NaN') or (a == float('inf') and b[1] == 'Infinity') or \
                (a == float('-inf') and b[1] == '-Infinity')
        return False
    if isinstance(a, bool) or isinstance(b, bool):
        return a is b
    if isinstance(a, (int, float)) and isinstance(b, (int, float)):
        if abs(a) > 2 ** 53:
            # beyond the integers a JavaScript number can hold (not part of the shared domain): the nearest double, give or
            # take the roundings of the sexagesimal sum
            return abs(float(a) - float(b)) <= abs(float(a)) * 1e-15
        return float(a) == float(b)
    return a == b


PAIRS = {
    'round': (lambda: athlib.round_up_str_num, 'roundUpStrNum'),
    'format': (lambda: athlib.format_seconds_as_time, 'formatSecondsAsTime'),
    'parse': (lambda: athlib.parse_hms, 'parseHms'),
    'hand': (lambda: athlib.is_hand_timing, 'isHandTiming'),
    'norm': (lambda: athlib.normalize_event_code, 'normalizeEventCode'),
    'tyrving': (lambda: athlib.tyrving_score, 'tyrvingScore'),
    'qkids': (lambda: athlib.qkids_score, 'qkidsScore'),
}


def classify(kind, args, py, js):
    """Root-cause discriminator for a disagreement."""
    if kind == 'format':
        d = args[0]
        fr = d - math.floor(d) if isinstance(d, (int, float)) and d >= 0 else 0
        return 'tiny-fraction' if 0 < fr < 1e-4 else 'plain'
    if kind == 'parse':
        t = args[0]
        if isinstance(t, str) and any(f == '' for f in re.split('[:;]', t)):
            return 'empty-field'
        return 'other'
    if kind == 'tyrving':
        perf = args[3]
        ev = args[2]
        sp = ''
        if isinstance(ev, str) and ev.endswith('\n') and not ev[:1].isspace():
            sp = '/event-with-trailing-newline'          # Python's `$` matches before it, JavaScript's does not
        elif isinstance(ev, str) and ev[:1].isspace():
            sp = '/event-with-leading-blank'
        elif isinstance(ev, str) and ev != ev.strip():
            sp = '/event-with-trailing-blank'
        if isinstance(perf, str) and ',' in perf:
            return 'comma' + sp
        if isinstance(perf, str) and athlib.is_hand_timing(perf):
            return 'hand-timed' + sp
        return 'plain' + sp
    if kind == 'norm':
        return 'norm'
    return 'plain'


def compare(node, kind, arglists):
    pyf = PAIRS[kind][0]()
    jsname = PAIRS[kind][1]
    jr = node.batch([(jsname, list(a)) for a in arglists])
    out = []
    for a, j in zip(arglists, jr):
        p = call(pyf, *a)
        if not same(p, j):
            py_s = 'refuses' if p[0] == 'exc' else 'value'
            js_s = 'refuses' if j[0] == 'exc' else ('special' if isinstance(j[1], tuple) else 'value')
            out.append(V('same-value-or-both-refuse', ['disagree', kind, classify(kind, a, p, j), 'py-' + py_s, 'js-' + js_s],
                         {'kind': kind, 'args': list(a)}, {'python': p[:2], 'js': list(j)}))
    return out


_node = None


def node():
    global _node
    if _node is None:
        _node = Node()
    return _node


def examine(case):
    if case['kind'] == 'tables':
        return examine_tables()
    return compare(node(), case['kind'], [case['args']])


def examine_tables():
    out = []
    n = node()
    jt = n.call('__tyrvingTables')
    pt = junior.tyrving_tables()

    def canon(x):
        if isinstance(x, dict):
            return {str(k): canon(v) for k, v in x.items()}
        if isinstance(x, (list, tuple)):
            return [canon(i) for i in x]
        if isinstance(x, (int, float)) and not isinstance(x, bool):
            return float(x)
        return x
    if jt[0] != 'ret' or canon(jt[1]) != canon(pt):
        diff = []
        if jt[0] == 'ret':
            for g in pt:
                for k in set(pt[g]) | set(jt[1].get(g, {})):
                    if canon(pt[g].get(k)) != canon(jt[1].get(g, {}).get(k)):
                        diff.append([g, k])
        out.append(V('tables-identical', ['tables-differ', 'tyrving'], {'kind': 'tables'}, diff[:10]))
    jq = n.call('__qkidsTables')
    if jq[0] != 'ret' or canon(jq[1]) != canon(junior.qkids_tables()):
        out.append(V('tables-identical', ['tables-differ', 'qkids'], {'kind': 'tables'}, None))
    return out


# ---------------------------------------------------------------------------------------------
# generators (shared with C06 / C11)

def fmt2(c):
    return '%d.%02d' % (c // 100, c % 100)


def mss(c):
    m, r = divmod(c, 6000)
    return '%d:%02d.%02d' % (m, r // 100, r % 100)


def shard(ctx, payload):
    what = payload[0]
    rng = random.Random(derive_seed(ctx.seed, 'C18', repr(payload)))
    thorough = ctx.tier == 'thorough'
    n = Node()
    try:
        def run_batch(kind, arglists, nt=None):
            if not arglists:
                return
            for i in range(0, len(arglists), 4000):
                chunk = arglists[i:i + 4000]
                ctx.count(len(chunk))
                vs = compare(n, kind, chunk)
                if vs:
                    ctx.violations(vs)
                for a in chunk:
                    if nt is None or nt(a):
                        ctx.nontrivial((kind, repr(a)), {'kind': kind, 'args': list(a)} if len(ctx.nt_keys) % 30000 == 1 else None)
            ctx.label('calls-' + kind, len(arglists))

        if what == 'round':
            ipart = payload[1]
            fr = ['']
            for k in range(1, 6 if thorough else 5):
                fr += [''.join(p) for p in itertools.product('01459', repeat=k)]
            fr += [''.join(rng.choice('0123456789') for _ in range(rng.choice([5, 6, 7]))) for _ in range(300)]
            args = []
            for f in fr:
                forms = [ipart + '.' + f] + ([ipart] if (ipart and not f) else [])
                for s in forms:
                    for prec in range(6):
                        args.append((s, prec))
            # the third argument (how many decimals count at all), given explicitly - 0 included
            for f in fr[::7]:
                s_ = ipart + '.' + f
                for prec in (0, 1, 2, 3):
                    for maxdp in (0, 1, 2, 3, 5, 6, 8):
                        args.append((s_, prec, maxdp))
            run_batch('round', args, lambda a: a[0].startswith('.') or a[0].startswith('0') or '9' in a[0])
        elif what == 'format':
            from checks.c06 import residue_floats
            ds = []
            for b in payload[1]:
                for ms in range(max(0, b * 1000 - 40), b * 1000 + 41):
                    ds.append(ms / 1000.0)
            ds += residue_floats(rng, 20000 if thorough else 2500)
            ds += [rng.randrange(0, 360000000) / 1000.0 for _ in range(20000 if thorough else 2500)]
            ds += [0, 1, 59, 60, 3599, 3600, 86400]
            args = [(d, p) for d in ds for p in (0, 1, 2, 3)]
            args += [(d, p) for d in (0, 27.3, 3599.99) for p in (4, -1, '2', None, 2.5)]
            run_batch('format', args, lambda a: isinstance(a[0], float) and (a[0] % 60 > 59.99 or 0 < a[0] - math.floor(a[0]) < 1e-4))
        elif what == 'parse':
            from checks.c06 import gen_structured
            texts = [gen_structured(rng, literals=False) for _ in range(payload[1])]
            # fields of hundreds of digits (C06's overflow cases) are beyond every JavaScript number: not the shared domain
            texts = [t for t in texts if not re.search(r'\d{100,}', t)]
            texts = [t for t in texts if t.isascii()]
            junk = ['x', 'abc', '1:x', 'x:1', '1;2;x', '1..2', '1.2.3', '--', '1:2:3:4x', ':', ';', '', '7:', ':7', '1::2', ' ',
                    '1 2', '1,2', '1:2;3']
            run_batch('parse', [(t,) for t in texts + junk], lambda a: ':' in a[0] or ';' in a[0])
            hands = []
            for _ in range(payload[1] // 4):
                c = rng.randrange(0, 100000)
                hands += [(fmt2(c),), ('%d.%d' % (c // 100, c % 10),), ('%d' % (c // 100),), ('%d.%03d' % (c // 100, c % 1000),),
                          (c / 100.0,), (c // 100,), (mss(c + 6000),)]
            run_batch('hand', hands, lambda a: isinstance(a[0], str) and athlib.is_hand_timing(a[0]))
        elif what == 'norm':
            keys = []
            for g, tab in junior.tyrving_tables().items():
                keys += list(tab)
            for ct, tab in junior.qkids_tables().items():
                keys += list(tab)
            keys = sorted(set(keys))
            args = []
            for k in keys:
                # the legal spelling first, then its case / spacing / suffix / zero variants whether they are codes or
                # not (a non-code must be refused by both sides, also right after its legal twin was normalised)
                args.append((k,))
                args.append((k.lower(),))
                args.append((k.upper(),))
                args.append((k.swapcase(),))
                args.append((' ' + k + ' ',))
                for i_ in range(60 if thorough else 24):
                    # one transformation, or two / three in a row (a trailing zero AND an odd blank ...)
                    kind, v = variants.variant(k, rng.randrange) if i_ % 2 else variants.variant_chain(k, rng.randrange, 2 + i_ % 4 // 2)
                    if v != k and all(ch.isascii() or ch in '\u00a0\u2003' for ch in v):
                        args.append((v,))
                args.append((k,))
            args += [('nonsense',), ('',), ('100m',), ('HJ1',)]
            seen = set()
            ordered = [a for a in args if not (a in seen or seen.add(a))] + [(k,) for k in keys]
            run_batch('norm', ordered, lambda a: a[0] not in keys)
        elif what == 'tyrving':
            _, g, ev = payload
            params = junior.tyrving_tables()[g][ev]
            if not athlib.check_event_code(ev):
                return
            kind, pargs = params
            timed = kind == 'race'
            args = []
            for age in junior.tyrving_ages(params):
                if kind == 'race':
                    base = int(junior._base(age, pargs[2]) * 100)
                    per = float(pargs[1]) * (1.0 if pargs[0] <= 500 else 0.1)
                    lo, hi = max(1, base - int(300 / per)), base + int(1000 / per) + 40
                elif kind == 'jump':
                    base = int(junior._base(age, pargs[1]) * 100)
                    lo, hi = max(0, base - int(1000 / float(pargs[0])) - 40), base + int(300 / float(pargs[0]))
                else:
                    l0, l1, l2 = [junior._base(age, yv) for yv in pargs[1]]
                    lo = max(0, int(l1 * 100) - int(float(l2) / float(pargs[0][2])) - 40)
                    hi = int(l0 * 100) + int(300 / float(pargs[0][0]))
                budget = 6000 if thorough else 500
                stride = max(1, (hi - lo) // budget)
                cs = list(range(lo + rng.randrange(stride), hi + 1, stride))
                for c in cs:
                    args.append((g, age, ev, centi_float(c)))
                    args.append((g, age, ev, fmt2(c)))
                    if c % 10 == 0:
                        args.append((g, age, ev, '%d.%d' % (c // 100, (c % 100) // 10)))
                    if c % 100 == 0:
                        args.append((g, age, ev, '%d' % (c // 100)))
                        args.append((g, age, ev, c // 100))
                    if c % 7 == 0:
                        args.append((g, age, ev, fmt2(c).replace('.', ',')))
                    if timed and c >= 6000 and c % 3 == 0:
                        args.append((g, age, ev, mss(c)))
                        args.append((g, age, ev, mss(c).replace(':', '.')))
                        args.append((g, age, ev, mss(c)[:-1]))                       # m:ss.t (hand-timed)
                        args.append((g, age, ev, mss(c)[:-1].replace(':', '.')))     # Norwegian m.ss.t
                        if c >= 360000:
                            hh, rr = divmod(c, 360000)
                            hm = '%d:%02d:%02d.%02d' % (hh, rr // 6000, (rr % 6000) // 100, rr % 100)
                            args += [(g, age, ev, hm), (g, age, ev, hm.replace(':', '.')), (g, age, ev, hm[:-1]),
                                     (g, age, ev, hm[:-1].replace(':', '.'))]       # h:mm:ss.xx, h.mm.ss.xx, h:mm:ss.t, h.mm.ss.t
                        if c % 100 == 0:
                            args.append((g, age, ev, mss(c)[:-3]))                   # m:ss
            ages = junior.tyrving_ages(params)
            # caller spellings of the event and gender x every carrier of the mark (the hand-timing decision and the
            # table lookup must be taken on the same reading of the code in both languages)
            spell = [' ' + ev, ev + ' ', '\t' + ev, ev + '\n', ' ' + ev.lower() + ' ', ev.lower(), ev.swapcase()]
            for i_ in range(14):
                kind_, v = variants.variant(ev, rng.randrange) if i_ % 2 else variants.variant_chain(ev, rng.randrange, 2)
                if v != ev and all(ch.isascii() or ch in '\u00a0\u2003' for ch in v):
                    spell.append(v)
                    spell.append(' ' + v)
            mid_age = ages[len(ages) // 2]
            for sp_ in spell:
                for age in (ages[0], mid_age, ages[-1]):
                    c = cs[rng.randrange(len(cs))] if cs else 1000
                    c10 = c - c % 10
                    for gs in (g, g.lower(), ' ' + g):
                        marks_ = [centi_float(c), fmt2(c), '%d.%d' % (c10 // 100, (c10 % 100) // 10), '%d' % (c // 100),
                                  fmt2(c).replace('.', ','), '%d,%d' % (c10 // 100, (c10 % 100) // 10)]
                        if timed and c >= 6000:
                            marks_ += [mss(c), mss(c10)[:-1], mss(c).replace(':', '.')]
                        for mk in marks_:
                            args.append((gs, age, sp_, mk))
            ctx.label('tyrving-caller-spellings', len(spell))
            # the age in its other numeric carriers: floats with and without a fraction (an age in years and months), at the
            # first, a middle and the last age class - whichever class one language takes, the other takes the same
            for age in (ages[0], mid_age, ages[-1]):
                for frac in (0.0, 0.25, 0.5, 0.75, 0.9, -0.5):
                    c = cs[rng.randrange(len(cs))] if cs else 1000
                    for mk in (centi_float(c), fmt2(c), '%d.%d' % (c // 100, (c % 100) // 10)):
                        args.append((g, age + frac, ev, mk))
            # ages that are no ages (a year of birth typed into the age field, a negative, zero, a huge number): both refuse
            yr = 1990 + rng.randrange(0, 10)
            for odd in list(range(yr, yr + 45, 1)) + [0, -1, -12, 150, 10 ** 6, str(yr + 20), float(yr + 21)]:
                args.append((g, odd, ev, '10.00'))
            ctx.label('tyrving-fractional-ages')
            args += [(g, ages[0] - 1, ev, '10.00'), (g, ages[-1] + 1, ev, '10.00'), (g.lower(), ages[0], ev.lower(), '10.00'),
                     ('X', ages[0], ev, '10.00'), (g, ages[0], 'MAR', '10.00'), (g, str(ages[0]), ev, '10.00')]
            # the gender field as entry systems carry it: words, category labels, other languages' letters, padding, a letter
            # buried inside a label - both languages take the same reading, or both refuse
            for gw in ('Male', 'female', 'MALE ', ' f', 'Men', 'Women', 'Boys', 'Girls', 'W', 'K', 'G', 'J', 'U15 F', 'U15M', 'SM',
                       'SW', 'SF', 'xM', 'xF', '-F', '(M)', 'Mixed', 'FM', 'MF', 'X', '', ' ', 'm\n', '\tF', 'f.', 'herr', 'dam',
                       'kvinner', 'menn', 'gutter', 'jenter', 'OPEN', 'Fem', 'masc', '1', 'M1', 'F35'):
                for age in (ages[0], mid_age):
                    c = cs[rng.randrange(len(cs))] if cs else 1000
                    args.append((gw, age, ev, fmt2(c)))
                    args.append((gw, age, ev, centi_float(c)))
            ctx.label('tyrving-gender-words')
            run_batch('tyrving', args, lambda a: isinstance(a[3], str) and (athlib.is_hand_timing(a[3]) or ':' in a[3] or ',' in a[3]))
        elif what == 'qkids':
            _, ct, ev = payload
            row = junior.qkids_tables()[ct][ev]
            r0, r1, r2 = [float(x) for x in row]
            a_, b_ = sorted((r1, r2))
            lo, hi = max(0, int((a_ - 8 * r0) * 100) - 50), int((b_ + 8 * r0) * 100) + 50
            timed = bool(athlib.PAT_RUN.match(ev))
            args = []
            for c in range(lo, hi + 1, 1 if (thorough or hi - lo < 4000) else 3):
                args.append((ct, ev, centi_float(c)))
                args.append((ct, ev, fmt2(c)))
                if c % 100 == 0:
                    args.append((ct, ev, c // 100))
                    args.append((ct, ev, '%d' % (c // 100)))
                if timed and c >= 6000 and c % 5 == 0:
                    args.append((ct, ev, mss(c)))
            # caller spellings of the event x carriers of the mark (run / field is decided on the code in both languages)
            mid = (lo + hi) // 2
            spell = [' ' + ev, ev + ' ', '\t' + ev, ev + '\n', ev.lower(), ev.swapcase(), ' ' + ev.lower() + ' ']
            for _ in range(10):
                kind_, v = variants.variant(ev, rng.randrange)
                if v != ev and v.isascii():
                    spell += [v, ' ' + v]
            for sp_ in spell:
                for cts in (ct, ct.lower(), ' ' + ct):
                    c = mid + rng.randrange(-200, 200)
                    for mk in [centi_float(c), fmt2(c), '%d' % (c // 100), c // 100, '%d.%d' % (c // 100, (c % 100) // 10)] + \
                            ([mss(c), mss(c)[:-1]] if timed and c >= 6000 else []):
                        args.append((cts, sp_, mk))
            ctx.label('qkids-caller-spellings', len(spell))
            names = {v: k for k, v in mod('qkids_score')._compTypeMap.items()}
            if ct in names:
                args.append((names[ct].title(), ev, fmt2((lo + hi) // 2)))
            args += [('NOPE', ev, '10'), (ct, 'MAR', '10'), (ct.lower(), ev.lower(), fmt2((lo + hi) // 2))]
            run_batch('qkids', args, lambda a: not isinstance(a[2], float))
    finally:
        n.close()


def run(ctx):
    thorough = ctx.tier == 'thorough'
    ctx.count()
    ctx.violations(examine_tables())
    ctx.label('table-structure-comparison')
    payloads = []
    ints = ['']
    for k in range(1, 4 if not thorough else 5):
        ints += [''.join(p) for p in itertools.product('019', repeat=k)]
    payloads += [('round', i) for i in ints]
    rng = random.Random(derive_seed(ctx.seed, 'C18-b'))
    bs = [1, 2, 59, 60, 61, 120, 600, 3599 // 60 * 60, 3600, 7200, 36000, 86400, 360000] + \
        rng.sample(range(60, 360001, 60), 600 if thorough else 60)
    payloads += [('format', bs[i::8]) for i in range(8)]
    payloads += [('parse', 40000 if thorough else 5000)] * 4
    payloads.append(('norm',))
    for g, tab in sorted(junior.tyrving_tables().items()):
        for ev in tab:
            payloads.append(('tyrving', g, ev))
    for ct, tab in sorted(junior.qkids_tables().items()):
        for ev in tab:
            payloads.append(('qkids', ct, ev))
    run_shards(ctx, 'checks.c18', 'shard', payloads, disjoint=False)
