#!/bin/sh
cd "$(dirname "$0")/.." || exit 2
./setup.sh >/dev/null 2>&1
for c in ${CHECKS:-C09 C14 C17 C15 C18 C10 C07 C11 C01 C19 C13 C06 C12 C04 C05 C08 C02 C16 C03}; do
  t0=$(date +%s); out=$(./check $c --tier thorough 2>&1); rc=$?; t1=$(date +%s)
  echo "$c rc=$rc $((t1-t0))s $(echo "$out" | grep -E "^$c thorough" | tail -1)"
  if [ $rc -ne 0 ]; then echo "$out" | grep -E "^(violation|VIOLATION|HARNESS)" | cut -c1-500; echo "$out" | tail -5; fi
done
