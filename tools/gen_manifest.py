#!/venv/bin/python
"""Regenerate MANIFEST.json from the table below (checks that exist under checks/ are claimed)."""
import json, os
V = os.path.dirname(os.path.dirname(os.path.abspath(__file__)))

CHECKS = {
 'C01': dict(
    technique='exhaustive grid sweep + seeded sampling against an exact-arithmetic oracle (differential)',
    text='Generated-input search: the complete 0.01 grid of all 52 rows for age=None and, for every age 1..110, all '
         'constructed rounding-hazard marks plus a seeded sample, compared with the formula evaluated in exact rational / '
         '60-digit decimal arithmetic from a pinned copy of the official coefficients and the JSON factor table. '
         'Finds any disagreement on the explored grid; does not prove the unexplored (row, age, mark) points.',
    note='Trusts: Python Fraction/Decimal; libm pow to 1e-9 relative away from integer results; the pinned coefficient copy; '
         'the factor JSON as data. Events without a factor row are only checked for crash-freedom under an age >= 35.',
    ref='DESIGN.md §4 C01'),
 'C05': dict(
    technique='metamorphic adjacent-pair sweep over generated runs of consecutive marks (monotonicity, type, bounds)',
    text='Runs of consecutive 0.01 marks are generated for every table/event/gender/age of all six scoring systems (complete ranges '
         'for the small systems and for combined events without age; seeded windows plus every threshold elsewhere in the quick tier, '
         'complete ranges in the thorough tier); every adjacent pair must be monotone, integer and within the system bounds.',
    note='No reference values are needed (metamorphic). Hungarian range limited as the property states. Explores, does not prove, '
         'pairs outside the swept windows in the quick tier.',
    ref='DESIGN.md §4 C05'),
 'C11': dict(
    technique='grid sweep in every documented input form against exact Fraction re-evaluation of the tables (differential) + table-structure enumeration',
    text='Every (system, table, event, gender, age) x centi-marks below, inside and beyond the tabulated range, in each documented carrier '
         '(float, int, text, m:ss.xx, Tyrving hand-timed text), compared with the table / linear formula evaluated in Fraction arithmetic; '
         'every table row is checked for ordering and reachability; table data are pinned by digest to the reference tree.',
    note='Trusts the tables of the reference tree as "published" (digest pins in checks/c11_pins.json; re-pin on an intentional table update). '
         'Sportshall increments in unparseable units only get a lower-bound oracle.',
    ref='DESIGN.md §4 C11'),
 'C09': dict(
    technique='exhaustive enumeration of the finite domain with a two-sided round-trip oracle',
    text='All 48 table rows x all integer targets -10..1500 (72 528 cases) are enumerated in both tiers; the needed mark must score '
         '>= target and the next-worse grid mark must score < target, using the library score (itself checked by C01) as forward function.',
    note='Trusts athlon_score as the forward function (decided by C01). Exhaustive for the stated finite domain.',
    ref='DESIGN.md §4 C09'),
}

PENDING = {}
for i in range(1, 20):
    pid = 'C%02d' % i
    if pid not in CHECKS:
        PENDING[pid] = 'check not built yet in this revision of /verif (design in DESIGN.md §4); nothing is claimed for it'

checks = []
na = []
for pid in sorted(set(CHECKS) | set(PENDING)):
    if pid in CHECKS and os.path.exists(os.path.join(V, 'checks', pid.lower() + '.py')):
        c = CHECKS[pid]
        checks.append({
            'property_id': pid,
            'quick_cmd': './check %s --tier quick' % pid,
            'thorough_cmd': './check %s --tier thorough' % pid,
            'evidence_file': 'evidence/%s.json' % pid,
            'replay_cmd_template': './check %s --replay {path}' % pid,
            'engine': 'vlib',
            'level_claimed': {'category': 'exploration', 'text': c['text'], 'design_ref': c['ref']},
            'level_note': c['note'],
            'technique': c['technique'],
        })
    else:
        na.append({'property_id': pid, 'reason': PENDING.get(pid) or CHECKS[pid].get('na', 'check file missing')})

manifest = {
    'version': 1,
    'setup_cmd': './setup.sh',
    'hooks': {
        'guard': 'ATHLIB_VERIF',
        'enable': 'no source hooks are needed: athlib is pure Python and is imported from /repo\'s working tree '
                  '(PYTHONPATH=/repo) by every check; ./check exports ATHLIB_VERIF=1 for completeness',
        'baseline_off_cmd': 'cd /repo && /venv/bin/python -m pytest -ra -q -p no:cacheprovider --timeout=900 '
                            '--continue-on-collection-errors',
        'source_commits': [],
        'add_only': True,
    },
    'engines': [
        {'name': 'vlib', 'path': 'vlib/', 'serves_properties': [c['property_id'] for c in checks],
         'kind_free_text': 'property-based testing: Hypothesis strategies / stateful machines, exhaustive enumeration of finite '
                           'domains over a 16-process pool, explicit oracles (exact arithmetic, reference models, differential, '
                           'metamorphic); collect-classify-shrink driver with known-finding signatures'},
    ],
    'checks': checks,
    'not_applicable': na,
    'notes': 'Run ./setup.sh once. Every check: ./check <ID> --tier quick|thorough [--replay FILE]; exit 0 held / 1 VIOLATION / '
             '2 harness error. known_findings.json lists open findings (printed as KNOWN-FINDING) and fixed ones (regress replays).',
}
with open(os.path.join(V, 'MANIFEST.json'), 'w') as f:
    json.dump(manifest, f, indent=1)
    f.write('\n')
print('claimed:', [c['property_id'] for c in checks])
