#!/bin/sh
# Idempotent, offline.  Installs hypothesis into /venv when it is missing and atheris
# (thorough tier of C06/C12 only) into /verif/.deps from the offline wheelhouse.
cd "$(dirname "$0")" || exit 2
WH=/opt/veriftools/wheels
/venv/bin/python -c 'import hypothesis' 2>/dev/null || \
  /venv/bin/pip install --no-index --find-links "$WH" hypothesis || exit 1
if ! PYTHONPATH=.deps /venv/bin/python -c 'import atheris' 2>/dev/null; then
  /venv/bin/pip install --no-index --find-links "$WH" --target .deps atheris >/dev/null 2>&1 || \
    echo "note: atheris not installable; the atheris engines will be skipped"
fi
mkdir -p evidence replays
/venv/bin/python -c 'import hypothesis, athlib; print("setup ok: hypothesis", hypothesis.__version__)'
