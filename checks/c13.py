"""C13 — UK age groups follow the rule cut-off dates for every birth and meeting date."""
import datetime
import random

import datetime as _dt
import athlib
from vlib.harness import V, derive_seed, run_shards
from vlib.lib import call

PROPERTY = 'C13'
AMBIENT_PASS = True        # the same search once more under unusual ambient settings (vlib.run.AMBIENT_SETTINGS)
RULE = ('meeting dates = days of the leap cycle 2016-01-01..2019-12-31 (+ 2000-02-29, 2100-02-28/03-01, 1900 cases); birth '
        'dates built AROUND the cut-offs: every day within +-3 days of each anniversary (0..110 years back) of the meeting '
        'day, 31 Aug, 1 Sep, 31 Dec, 1 Jan and 28/29 Feb, plus a seeded uniform sample; x category {TF, XC, ROAD} x vets x '
        'underage; birth as date and as ISO text.  quick: a seeded ~9 % of the meeting dates; thorough: the COMPLETE cross '
        'product of all 1461 meeting dates x all ~40 000 birth dates for TF and XC with default options, and the boundary set '
        'for the other option combinations.  oracle = the rule text re-implemented with a hand-written completed-years '
        'function (no dateutil): TF for meetings 1 Jan - 30 Sep, XC/ROAD all year; structural clauses on all dates (known '
        'label, date == ISO text, monotone in birth date, vets / underage only change masters / under-11 outcomes); '
        'non-trivial = a pair whose birthday anniversary falls within 3 days of a cut-off or of the meeting day, or a 29 Feb '
        'birth; distinct (birth, meeting, category, options)')
ASSUMPTIONS = ['under-11 outcomes (U11, and U9 with the underage option) follow the library\'s documented extension of the rules: '
               'by age on 31 August (TF) / on the day (XC, ROAD)',
               'Rule 207/507 "aged 11 on the day or 12 on the preceding 31 August" is read as: at least 11 on the day and at most 12 on '
               'the preceding 31 August']
RULE = RULE + '; options also left out (documented defaults), birth date also as a midnight datetime and options as keywords'

LABELS = ['U9', 'U11', 'U13', 'U15', 'U17', 'U20', 'SEN'] + ['V%02d' % b for b in range(35, 130, 5)]
RANK = {l: i for i, l in enumerate(LABELS)}
D = datetime.date


def age_on(on, birth):
    """Completed years; a 29 Feb birthday counts on 28 Feb in common years."""
    bm, bd = birth.month, birth.day
    if (bm, bd) == (2, 29) and not (on.year % 4 == 0 and (on.year % 100 != 0 or on.year % 400 == 0)):
        bd = 28
    return on.year - birth.year - ((on.month, on.day) < (bm, bd))


def masters(ad, vets):
    if ad >= 35 and vets:
        return 'V%02d' % (5 * (ad // 5))
    return 'SEN'


def oracle(birth, match, category, vets, underage):
    """Expected label, or None where the rule text is ambiguous (TF in Oct-Dec)."""
    ad = age_on(match, birth)
    if category == 'TF':
        if match.month >= 10:
            return None
        a31 = age_on(D(match.year, 8, 31), birth)
        d31 = age_on(D(match.year, 12, 31), birth)
        if a31 < 11:
            return 'U9' if underage and a31 < 9 else 'U11'
        if a31 <= 12:
            return 'U13'
        if a31 <= 14:
            return 'U15'
        if a31 <= 16:
            return 'U17'
        if d31 < 20:
            return 'U20'
        return masters(ad, vets)
    cut = D(match.year, 8, 31)
    if cut > match:
        cut = D(match.year - 1, 8, 31)
    a31 = age_on(cut, birth)
    if ad < 11:
        return 'U9' if underage and ad < 9 else 'U11'
    if a31 <= 12:
        return 'U13'
    if a31 <= 14:
        return 'U15'
    if a31 <= 16:
        return 'U17'
    if a31 <= 19:
        return 'U20'
    return masters(ad, vets)


def iso(d):
    return '%04d-%02d-%02d' % (d.year, d.month, d.day)


def examine_pair(birth, match, category, vets, underage, text_too=True):
    out = []
    case = {'kind': 'pair', 'birth': iso(birth), 'match': iso(match), 'category': category, 'vets': vets, 'underage': underage}
    r = call(athlib.calc_uka_age_group, birth, match, category, vets, underage)
    if r[0] == 'exc' or r[1] not in RANK:
        out.append(V('defined-for-all-dates', ['undefined', r[1] if r[0] == 'exc' else repr(r[1]), category], case, r[:3]))
        return out, None
    got = r[1]
    want = oracle(birth, match, category, vets, underage)
    if want is not None and got != want:
        out.append(V('equals-rule-text', ['rule-text', category, 'got-' + got[:1] + '-want-' + want[:1]], case, got, want))
    if text_too:
        rt = call(athlib.calc_uka_age_group, iso(birth), match, category, vets, underage)
        if rt != r:
            out.append(V('date-equals-iso-text', ['iso-text', category], case, rt[:3], got))
        # a datetime at midnight IS that date (a time of day is more than the property speaks about: with 23:59:59 the
        # library counts the birthday itself as not yet complete), and keyword arguments are the same call
        for name, b2 in (('datetime-midnight', _dt.datetime(birth.year, birth.month, birth.day)),):
            r2 = call(athlib.calc_uka_age_group, b2, match, category, vets, underage)
            if r2 != r:
                out.append(V('date-equals-iso-text', ['date-object', name, category], case, r2[:3], got))
        r3 = call(athlib.calc_uka_age_group, birth, match, category, vets=vets, underage=underage)
        if r3 != r:
            out.append(V('date-equals-iso-text', ['keyword-options', category], case, r3[:3], got))
    return out, got


def examine(case):
    if case['kind'] == 'pair':
        b = D(*map(int, case['birth'].split('-')))
        m = D(*map(int, case['match'].split('-')))
        out, got = examine_pair(b, m, case['category'], case['vets'], case['underage'])
        # option clauses around this pair
        out += examine_options(b, m, case['category'])
        return out
    if case['kind'] == 'monotone':
        m = D(*map(int, case['match'].split('-')))
        b1 = D(*map(int, case['older'].split('-')))
        b2 = D(*map(int, case['younger'].split('-')))
        g1 = call(athlib.calc_uka_age_group, b1, m, case['category'], case['vets'], case['underage'])
        g2 = call(athlib.calc_uka_age_group, b2, m, case['category'], case['vets'], case['underage'])
        if g1[0] == 'ret' and g2[0] == 'ret' and g1[1] in RANK and g2[1] in RANK and RANK[g1[1]] < RANK[g2[1]]:
            return [V('monotone-in-birth-date', ['monotone', case['category']], case, [g1[1], g2[1]])]
    return []


def examine_options(birth, match, category):
    out = []
    res = {}
    for vets in (True, False):
        for under in (True, False):
            r = call(athlib.calc_uka_age_group, birth, match, category, vets, under)
            res[(vets, under)] = r[1] if r[0] == 'ret' else None
    base = {'kind': 'pair', 'birth': iso(birth), 'match': iso(match), 'category': category}
    for under in (True, False):
        a, b = res[(True, under)], res[(False, under)]
        if a != b and not (isinstance(a, str) and a.startswith('V') and b == 'SEN'):
            out.append(V('vets-only-changes-masters', ['options', 'vets', category], dict(base, vets=False, underage=under), [a, b]))
    for vets in (True, False):
        a, b = res[(vets, True)], res[(vets, False)]
        if a != b and not ({a, b} <= {'U9', 'U11'}):
            out.append(V('underage-only-changes-under-11', ['options', 'underage', category], dict(base, vets=vets, underage=True), [a, b]))
    # the options left out: the documented defaults of the entry point (vets=True, underage=False) in every category -
    # leaving an option out is not a third behaviour
    for kw, key, how in (({}, (True, False), 'both-omitted'), ({'vets': False}, (False, False), 'underage-omitted'),
                         ({'underage': True}, (True, True), 'vets-omitted'), ({'vets': True}, (True, False), 'underage-omitted'),
                         ({'underage': False}, (True, False), 'vets-omitted')):
        try:
            r = athlib.calc_uka_age_group(birth, match, category, **kw)
        except Exception as e:
            r = 'raises ' + type(e).__name__
        if r != res[key] and res[key] is not None:
            out.append(V('omitted-option-is-its-documented-default', ['options', how, category],
                         dict(base, vets=key[0], underage=key[1], options=kw), r, res[key]))
    return out


def boundary_births(match, rng, nsample):
    """Birth dates around every cut-off anniversary, 0..110 years back, plus a uniform sample."""
    s = set()
    anchors = [(match.month, match.day), (8, 31), (9, 1), (12, 31), (1, 1), (2, 28), (3, 1)]
    for back in range(0, 112):
        y = match.year - back
        for mth, day in anchors:
            try:
                a = D(y, mth, day)
            except ValueError:
                a = D(y, 2, 28)
            for d in range(-3, 4):
                b = a + datetime.timedelta(days=d)
                if b <= match and (match.year - b.year) <= 111:
                    s.add(b)
        if y % 4 == 0 and (y % 100 != 0 or y % 400 == 0):
            b = D(y, 2, 29)
            if b <= match:
                s.add(b)
    lo = D(match.year - 110, match.month, min(match.day, 28)).toordinal()
    for _ in range(nsample):
        s.add(D.fromordinal(rng.randrange(lo, match.toordinal() + 1)))
    return sorted(s, reverse=True)       # youngest first


def near_cutoff(birth, match):
    if (birth.month, birth.day) == (2, 29):
        return True
    for mth, day in ((match.month, match.day), (8, 31), (12, 31)):
        for y in (2015, 2016):      # a leap and a common year to measure day distance within a year
            try:
                a = D(y, mth, day)
                b = D(y, birth.month, birth.day)
            except ValueError:
                continue
            if abs((a - b).days) <= 3:
                return True
    return False


def sweep(ctx, match, births, category, vets, underage, text_every, options_every):
    prev = None
    prevb = None
    for i, b in enumerate(births):
        ctx.count()
        vs, got = examine_pair(b, match, category, vets, underage, text_too=(i % text_every == 0))
        if vs:
            ctx.violations(vs)
        if got is not None:
            if prev is not None and RANK[got] < prev:
                ctx.violation(V('monotone-in-birth-date', ['monotone', category],
                                {'kind': 'monotone', 'match': iso(match), 'older': iso(b), 'younger': iso(prevb),
                                 'category': category, 'vets': vets, 'underage': underage}, [got, LABELS[prev]]))
            prev, prevb = RANK[got], b
        if options_every and i % options_every == 0:
            ctx.count(3)
            vs = examine_options(b, match, category)
            if vs:
                ctx.violations(vs)
        if near_cutoff(b, match):
            ctx.nontrivial((b.toordinal(), match.toordinal(), category, vets, underage),
                           {'birth': iso(b), 'match': iso(match), 'category': category, 'vets': vets,
                            'underage': underage, 'group': got} if len(ctx.nt_keys) % 100000 == 9 else None)


def shard_boundary(ctx, payload):
    matches, nsample = payload
    rng = random.Random(derive_seed(ctx.seed, 'C13', ctx.shard))
    for mo in matches:
        match = D.fromordinal(mo)
        births = boundary_births(match, rng, nsample)
        for cat in ('TF', 'XC'):
            sweep(ctx, match, births, cat, True, False, 7, 11)
        sweep(ctx, match, births, 'ROAD', True, False, 50, 0)
        # the other option combinations on every 3rd birth date
        for vets, under in ((True, True), (False, False), (False, True)):
            for cat in ('TF', 'XC'):
                sweep(ctx, match, births[::3], cat, vets, under, 50, 0)
        ctx.label('meeting-date-boundary-set')


def shard_complete(ctx, payload):
    """All birth dates from 110 years back to the day, for one meeting date: TF and XC, default options."""
    mo = payload
    match = D.fromordinal(mo)
    lo = D(match.year - 110, match.month, min(match.day, 28)).toordinal()
    births = [D.fromordinal(o) for o in range(mo, lo - 1, -1)]
    for cat in ('TF', 'XC'):
        sweep(ctx, match, births, cat, True, False, 400, 0)
    ctx.label('meeting-date-complete')


def run(ctx):
    thorough = ctx.tier == 'thorough'
    rng = random.Random(derive_seed(ctx.seed, 'C13-dates'))
    cycle = list(range(D(2016, 1, 1).toordinal(), D(2019, 12, 31).toordinal() + 1))
    special = [D(2000, 2, 29), D(2000, 3, 1), D(2100, 2, 28), D(2100, 3, 1), D(1900, 3, 1), D(2016, 2, 29), D(2016, 8, 31),
               D(2016, 9, 1), D(2016, 9, 30), D(2016, 10, 1), D(2016, 12, 31), D(2017, 1, 1), D(2017, 2, 28), D(2017, 8, 31),
               D(2017, 9, 1), D(2018, 9, 30), D(2019, 10, 1), D(2019, 12, 31)]
    if thorough:
        chosen = cycle[::4]
    else:
        chosen = rng.sample(cycle, 110)
    chosen = sorted(set(chosen) | set(d.toordinal() for d in special))
    shards = [chosen[i::32] for i in range(32)]
    run_shards(ctx, 'checks.c13', 'shard_boundary', [(s, 300 if thorough else 150) for s in shards if s], disjoint=True)
    if thorough:
        run_shards(ctx, 'checks.c13', 'shard_complete', cycle, disjoint=True)
        ctx.note('complete cross product of the 1461 meeting dates of 2016-2019 with every birth date of the preceding 110 years '
                 'for TF and XC (default options)')
    ctx.extra['meeting_dates_boundary_set'] = len(chosen)
